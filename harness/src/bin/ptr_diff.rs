//! C18 at the engine level: the cached last-message pointer of the group record designates the head of the default
//! listing (among messages that are not invalidated) after EVERY step of a history - with created_at ties, own echoes,
//! re-deliveries, commit races (rollback + invalidation) and the wall clock advancing between steps (processed_at is
//! wall-clock seconds, so `TICK` really sleeps).  Oracle-only harness: it evaluates, on the real clients' stored state,
//! the conclusion of the theorem C18_pointer_is_head (pointer = ptr_of (head of the listing)) and the strict order of
//! the listing; there is no model run because processed_at is the implementation's wall clock.
//!   PT RESET <n> <mask> | PT SEND <m> <ev> <created> <msg> | PT DELIVER <m> <ev> | PT TICK | PT COMMIT <m> <ev> <ts> | PT MERGE <m> <ev>
use mdk_memory_storage::MdkMemoryStorage;
use mdk_sqlite_storage::MdkSqliteStorage;
use mdk_storage_traits::messages::types::MessageState;
use mdk_storage_traits::groups::Pagination;
use mdk_storage_traits::MdkStorageProvider;
use mdk_verif_harness::out::{arg, Run};
use mdk_verif_harness::rng::Rng;
use mdk_verif_harness::world::{EvInfo, World};
use nostr::{EventBuilder, Kind, UnsignedEvent};
use std::panic::{catch_unwind, AssertUnwindSafe};

fn check<S: MdkStorageProvider>(w: &World<S>, c: usize) -> Option<String> {
    let g = w.clients[c].mdk.get_group(&w.gid).ok().flatten()?;
    let msgs = w.clients[c].mdk.get_messages(&w.gid, Some(Pagination::new(Some(10000), Some(0)))).ok()?;
    let live: Vec<_> = msgs.iter().filter(|m| m.state != MessageState::EpochInvalidated).collect();
    let num = |id: &nostr::EventId| w.msg_ids.get(id).cloned().unwrap_or(999);
    for p in msgs.windows(2) {
        let (a, b) = (&p[0], &p[1]);
        let ka = (a.created_at.as_secs(), a.processed_at.as_secs(), a.id.to_bytes());
        let kb = (b.created_at.as_secs(), b.processed_at.as_secs(), b.id.to_bytes());
        if ka <= kb { return Some(format!("listing is not strictly descending in (created_at, processed_at, id): message {} then message {}", num(&a.id), num(&b.id))); }
    }
    match (live.first(), g.last_message_id) {
        (None, None) => None,
        (None, Some(id)) => Some(format!("the pointer names message {} but no live message is listed", num(&id))),
        (Some(h), None) => Some(format!("the pointer is empty but the listing is headed by message {}", num(&h.id))),
        (Some(h), Some(id)) => {
            if h.id != id { Some(format!("the pointer names message {} but the listing is headed by message {} (created_at {}, processed_at {})", num(&id), num(&h.id), h.created_at.as_secs() - w.base_ts.min(h.created_at.as_secs()), h.processed_at.as_secs())) }
            else if g.last_message_at != Some(h.created_at) || g.last_message_processed_at != Some(h.processed_at) {
                Some(format!("the pointer names message {} with keys ({:?},{:?}) but the stored message has ({},{})", num(&id), g.last_message_at.map(|t| t.as_secs()), g.last_message_processed_at.map(|t| t.as_secs()), h.created_at.as_secs(), h.processed_at.as_secs()))
            } else { None }
        }
    }
}

fn step<S: MdkStorageProvider>(w: &mut World<S>, line: &str) -> String {
    let t: Vec<&str> = line.split(' ').collect();
    let n = |i: usize| t[i].parse::<u64>().unwrap();
    match t[1] {
        "TICK" => { std::thread::sleep(std::time::Duration::from_millis(1050)); "ok".into() }
        "SEND" => {
            let (m, ev, created, msg) = (n(2) as usize, n(3), n(4), n(5));
            mdk_core::verif_hooks::set_wrapper_created_at(Some(w.base_ts + 100 + ev));
            let mut rumor: UnsignedEvent = EventBuilder::new(Kind::Custom(9), format!("text {msg}")).custom_created_at(nostr::Timestamp::from(w.base_ts + created)).build(w.clients[m].keys.public_key());
            rumor.ensure_id();
            let rid = rumor.id.unwrap();
            let gid = w.gid.clone();
            let st = w.sigma_of(m, None); let ep = w.mls_epoch(m);
            match catch_unwind(AssertUnwindSafe(|| w.clients[m].mdk.create_message(&gid, rumor))) {
                Ok(Ok(e)) => { w.msg_ids.insert(rid, msg);
                    w.events.insert(ev, EvInfo { event: e, kind: "app".into(), author: m, state: st.parse().unwrap_or(9999), epoch: ep, ts: 100 + ev, msg: Some((msg, rid)), ckind: String::new(), refs: vec![], auth: true, removes: vec![] });
                    "ok".into() }
                Ok(Err(_)) => "Err".into(),
                Err(_) => "PANIC".into(),
            }
        }
        "DELIVER" => { let (_, fp) = w.exec(&format!("PR DELIVER {} {}", t[2], t[3])); fp.split(' ').next().unwrap_or("").to_string() }
        "COMMIT" => { let (_, fp) = w.exec(&format!("PR COMMIT {} su {} {}", t[2], t[3], t[4])); fp.split(' ').next().unwrap_or("").to_string() }
        "MERGE" => { let (_, fp) = w.exec(&format!("PR MERGE {} {}", t[2], t[3])); fp.split(' ').next().unwrap_or("").to_string() }
        _ => "UNKNOWN-CASE".into(),
    }
}

fn generate(r: &mut Rng, steps: u64, ticks: u64) -> Vec<(String, &'static str)> {
    let n = 3u64; let mask = 0b011u64;
    let mut v = vec![(format!("PT RESET {n} {mask}"), "RESET")];
    let (mut next_ev, mut next_msg, mut ticks_left) = (0u64, 1u64, ticks);
    let mut evs: Vec<u64> = vec![]; let mut pending: Vec<Option<u64>> = vec![None; n as usize];
    let mut since_tick = 0;
    for _ in 0..steps {
        let k = r.below(100);
        since_tick += 1;
        if k < 34 {
            // created_at from a pool of two values: ties are the rule, so processed_at and the id decide
            v.push((format!("PT SEND {} {next_ev} {} {next_msg}", r.below(n), r.below(2)), "SEND")); evs.push(next_ev); next_ev += 1; next_msg += 1;
        } else if k < 74 && !evs.is_empty() {
            let ev = if r.chance(1, 2) { *evs.last().unwrap() } else { *r.pick(&evs) };
            v.push((format!("PT DELIVER {} {ev}", r.below(n)), "DELIVER"));
        } else if k < 82 && ticks_left > 0 && since_tick >= 3 { ticks_left -= 1; since_tick = 0; v.push(("PT TICK".into(), "TICK")); }
        else if k < 92 {
            let m = r.below(2) as usize;
            if pending[m].is_none() { v.push((format!("PT COMMIT {m} {next_ev} {}", 100 + r.below(3)), "COMMIT")); pending[m] = Some(next_ev); evs.push(next_ev); next_ev += 1; }
        } else {
            let m = r.below(2) as usize;
            if let Some(ev) = pending[m].take() { v.push((format!("PT MERGE {m} {ev}"), "MERGE")); }
        }
    }
    v
}

fn run_lines<S: MdkStorageProvider, F: Fn(usize) -> S>(lines: &[(String, &'static str)], mk: F, backend: &str) -> (Vec<(String, String, &'static str)>, Vec<(String, String)>) {
    let mut w: Option<World<S>> = None;
    let (mut out, mut fails) = (vec![], vec![]);
    let mut seq: Vec<String> = vec![];
    let mut reported = false;
    for (l, class) in lines {
        let t: Vec<&str> = l.split(' ').collect();
        if t[1] == "RESET" { w = Some(World::new_full(t[2].parse().unwrap(), t[3].parse().unwrap(), 5, false, 0, &mk)); seq = vec![l.clone()]; reported = false; out.push((l.clone(), "RESET".to_string(), *class)); continue; }
        let Some(w) = w.as_mut() else { continue };
        seq.push(l.clone());
        let res = step(w, l);
        if res == "PANIC" { fails.push(("C06".to_string(), format!("[{backend}] panic on `{l}`\t{}", seq.join(" || ")))); }
        if !reported { for c in 0..w.clients.len() {
            if let Some(e) = catch_unwind(AssertUnwindSafe(|| check(w, c))).unwrap_or(None) {
                fails.push(("C18".to_string(), format!("[{backend}] after `{l}` at member {c}: {e}\t{}", seq.join(" || ")))); reported = true; break;
            }
        } }
        out.push((l.clone(), res, *class));
    }
    (out, fails)
}

fn main() {
    std::panic::set_hook(Box::new(|_| {}));
    let backend = arg("--backend").unwrap_or("mem".into());
    let out = arg("--out").unwrap_or(format!("/verif/.cache/run/ptr-{backend}"));
    let mut run = Run::new(&out, "generated histories of 3 members (2 admins) with application messages whose created_at is drawn from two values (ties are the rule), own echoes, re-deliveries, competing self-update commits (rollback and invalidation) and up to two real 1.05 s pauses per history so that processed_at (wall-clock seconds) differs between steps; after every step the pointer of every member's group record is compared with the head of its own listing; non-trivial = a step executed after the first pause of its history");
    std::fs::create_dir_all("/verif/.cache/tmp").unwrap();
    let nhist: u64 = arg("--hist").and_then(|s| s.parse().ok()).unwrap_or(16);
    let steps: u64 = arg("--steps").and_then(|s| s.parse().ok()).unwrap_or(30);
    let mut r = Rng::from_env();
    let mut hists: Vec<Vec<(String, &'static str)>> = vec![];
    if let Some(f) = arg("--cases") {
        let mut cur: Vec<(String, &'static str)> = vec![];
        for l in std::fs::read_to_string(f).unwrap().lines().filter(|l| !l.is_empty() && !l.starts_with('#')) {
            if l.starts_with("PT RESET") && !cur.is_empty() { hists.push(std::mem::take(&mut cur)); }
            cur.push((l.to_string(), "replay"));
        }
        if !cur.is_empty() { hists.push(cur); }
    } else {
        if let Ok(c) = std::fs::read_to_string("/verif/corpus/ptr.txt") {
            let mut cur: Vec<(String, &'static str)> = vec![];
            for l in c.lines().filter(|l| !l.is_empty() && !l.starts_with('#')) {
                if l.starts_with("PT RESET") && !cur.is_empty() { hists.push(std::mem::take(&mut cur)); }
                cur.push((l.to_string(), "corpus"));
            }
            if !cur.is_empty() { hists.push(cur); }
        }
        for _ in 0..nhist { let mut g = r.fork(); let n = steps / 2 + g.below(steps); hists.push(generate(&mut g, n, 2)); }
    }
    // the pauses are real time: run the histories on parallel threads (the wrapper-timestamp hook is thread-local)
    let dir = tempfile::Builder::new().prefix("ptr").tempdir_in("/verif/.cache/tmp").unwrap();
    let base = dir.path().to_path_buf();
    let mut results = vec![];
    let indexed: Vec<(usize, &Vec<(String, &'static str)>)> = hists.iter().enumerate().collect();
    for chunk in indexed.chunks(32) {
        let part: Vec<_> = std::thread::scope(|s| {
            let hs: Vec<_> = chunk.iter().map(|(i, h)| { let b = base.clone(); let backend = backend.clone(); let i = *i; s.spawn(move || {
                if backend == "mem" { run_lines(h, |_| MdkMemoryStorage::new(), "memory") }
                else { run_lines(h, move |c| MdkSqliteStorage::new_unencrypted(b.join(format!("h{i}_c{c}.db"))).unwrap(), "sqlite") }
            }) }).collect();
            hs.into_iter().map(|h| h.join().unwrap_or_default()).collect()
        });
        results.extend(part);
    }
    for (out, fails) in results {
        let mut ticked = false;
        for (l, res, class) in out { if l == "PT TICK" { ticked = true; } if l.starts_with("PT RESET") { ticked = false; } run.case(class, ticked, l, res); }
        for (p, d) in fails { let mut it = d.splitn(2, '\t'); let (desc, seq) = (it.next().unwrap().to_string(), it.next().unwrap_or("").to_string()); run.oracle_fail(&p, "", desc, seq); }
    }
    run.finish();
    println!("ptr_diff[{backend}]: {} lines, {} oracle failures", run.cases.len(), run.oracle.len());
}
