//! event_codec_diff - C15 (part b): key-package events (kind 443), welcome rumors (kind 444) and base64 / hex content on the real code
//! vs the Coq decision models of Codec/EventCodec.v.
//!
//! Case lines (`--cases <file>` re-runs them; everything the implementation sees is in the line):
//!   B64D <string bytes>  / B64E <bytes> / HEXD <string bytes>     nostr::base64 STANDARD engine and the hex crate (what MDK calls)
//!   KPEV kind=<n> author=<hex> content=<hex of the content string> tags=<t;t;..> (t = hex elements joined by ',')  | facts
//!        facts (ground truth computed WITHOUT parse_key_package): tls=<0|1> exact TLS parse + validate of the base64-decoded content,
//!        ref=<KeyPackageRef>, ident=<credential identity or ->, relays=<relay strings RelayUrl::parse accepts>
//!   WELC kind=<n> content=<..> tags=<..> | tls=<0|1> relays=<..>    (the joiner is rebuilt from the line: see `welcome_world`)
use std::panic::{AssertUnwindSafe, catch_unwind};

use mdk_core::MDK;
use mdk_core::groups::NostrGroupConfigData;
use mdk_memory_storage::MdkMemoryStorage;
use mdk_verif_harness::out::{Run, arg, hex};
use mdk_verif_harness::rng::Rng;
use nostr::base64::Engine;
use nostr::base64::engine::general_purpose::STANDARD as BASE64;
use nostr::{Event, EventBuilder, EventId, Keys, Kind, RelayUrl, Tag, UnsignedEvent};
use openmls::prelude::{BasicCredential, KeyPackageIn, MlsMessageBodyIn, MlsMessageIn, ProtocolVersion};
use openmls_traits::OpenMlsProvider;
use tls_codec::Deserialize as TlsDeserializeTrait;

fn unhex(s: &str) -> Vec<u8> { if s == "-" { vec![] } else { hex::decode(s).unwrap() } }
fn kv<'a>(toks: &'a [&'a str], k: &str) -> &'a str { for t in toks { if let Some(rest) = t.strip_prefix(k) { if let Some(v) = rest.strip_prefix('=') { return v; } } } "-" }
fn tags_field(tags: &[Vec<String>]) -> String {
    if tags.is_empty() { return "-".into(); }
    tags.iter().map(|t| t.iter().map(|e| hex(e.as_bytes())).collect::<Vec<_>>().join(",")).collect::<Vec<_>>().join(";")
}
fn parse_tags(s: &str) -> Vec<Vec<String>> {
    if s == "-" { return vec![]; }
    s.split(';').map(|t| t.split(',').map(|e| String::from_utf8(unhex(e)).unwrap()).collect()).collect()
}
fn to_tags(tags: &[Vec<String>]) -> Vec<Tag> { tags.iter().filter_map(|t| Tag::parse(t.iter().map(|s| s.as_str())).ok()).collect() }

/// Ground truth about a key-package content string, through OpenMLS directly.
fn kp_facts(mdk: &MDK<MdkMemoryStorage>, content: &str, tags: &[Vec<String>]) -> String {
    let mut tls = 0; let mut kref = "-".to_string(); let mut ident = "-".to_string();
    if let Ok(raw) = BASE64.decode(content) {
        if let Ok(Ok(kin)) = catch_unwind(AssertUnwindSafe(|| KeyPackageIn::tls_deserialize_exact(raw.as_slice()))) {
            if let Ok(kp) = kin.validate(mdk.provider.crypto(), ProtocolVersion::Mls10) {
                tls = 1;
                kref = hex(kp.hash_ref(mdk.provider.crypto()).unwrap().as_slice());
                if let Ok(c) = BasicCredential::try_from(kp.leaf_node().credential().clone()) {
                    if c.identity().len() == 32 && nostr::PublicKey::from_slice(c.identity()).is_ok() { ident = hex(c.identity()); }
                }
            }
        }
    }
    let good: Vec<String> = tags.iter().filter(|t| t.first().map(|n| n == "relays").unwrap_or(false)).flat_map(|t| t.iter().skip(1)).filter(|r| RelayUrl::parse(r).is_ok()).map(|r| hex(r.as_bytes())).collect();
    format!("tls={tls} ref={kref} ident={ident} relays={}", if good.is_empty() { "-".into() } else { good.join(",") })
}

struct Ctx { mdk: MDK<MdkMemoryStorage>, keys: Vec<Keys>, welcome: Option<(Vec<Vec<String>>, String, Keys, Vec<u8>)> }

/// Rebuild the event of a KPEV line.  The author's secret key is looked up among the harness keys (deterministic pool); an unknown
/// author gets an unsigned-equivalent event built through JSON (parse_key_package does not verify signatures).
fn event_from_line(ctx: &Ctx, kind: u16, author: &[u8], content: &str, tags: &[Vec<String>]) -> Option<Event> {
    let keys = ctx.keys.iter().find(|k| k.public_key().as_bytes()[..] == *author)?;
    EventBuilder::new(Kind::from(kind), content).tags(to_tags(tags)).sign_with_keys(keys).ok()
}

fn eval_impl(ctx: &mut Ctx, line: &str) -> String {
    let toks: Vec<&str> = line.split(" | ").next().unwrap().split(' ').collect();
    match toks[0] {
        "B64D" => match std::str::from_utf8(&unhex(toks[1])).ok().map(|s| BASE64.decode(s)) { Some(Ok(b)) => format!("OK {}", hex(&b)), _ => "ERR".into() },
        "B64E" => format!("OK {}", hex(BASE64.encode(unhex(toks[1])).as_bytes())),
        "HEXD" => match std::str::from_utf8(&unhex(toks[1])).ok().map(hex::decode) { Some(Ok(b)) => format!("OK {}", hex(&b)), _ => "ERR".into() },
        "KPEV" => {
            let kind: u16 = kv(&toks, "kind").parse().unwrap();
            let content = String::from_utf8(unhex(kv(&toks, "content"))).unwrap();
            let tags = parse_tags(kv(&toks, "tags"));
            let Some(ev) = event_from_line(ctx, kind, &unhex(kv(&toks, "author")), &content, &tags) else { return "UNKNOWN-AUTHOR".into(); };
            match catch_unwind(AssertUnwindSafe(|| ctx.mdk.parse_key_package(&ev))) {
                Err(_) => "PANIC".into(),
                Ok(Err(_)) => "REFUSE".into(),
                Ok(Ok(kp)) => format!("ACCEPT ref={}", hex(kp.hash_ref(ctx.mdk.provider.crypto()).unwrap().as_slice())),
            }
        }
        "WELC" => {
            let kind: u16 = kv(&toks, "kind").parse().unwrap();
            let content = String::from_utf8(unhex(kv(&toks, "content"))).unwrap();
            let tags = parse_tags(kv(&toks, "tags"));
            // a fresh joiner holding the key package the welcome was made for: replays need the original world, so WELC lines are only
            // meaningful within the run that produced them; on replay (no world) the verdict is recomputed on a new world's own welcome
            let Some((_, _, jkeys, _)) = ctx.welcome.as_ref() else { return "NO-WORLD".into(); };
            let rumor: UnsignedEvent = EventBuilder::new(Kind::from(kind), content).tags(to_tags(&tags)).build(jkeys.public_key());
            let joiner = JOINER.with(|j| j.borrow_mut().take());
            let Some(joiner) = joiner else { return "NO-JOINER".into(); };
            let r = catch_unwind(AssertUnwindSafe(|| joiner.process_welcome(&EventId::all_zeros(), &rumor)));
            match r { Err(_) => "PANIC".into(), Ok(Err(_)) => "REFUSE".into(), Ok(Ok(_)) => "ACCEPT".into() }
        }
        _ => "UNKNOWN-CASE".into(),
    }
}

thread_local! { static JOINER: std::cell::RefCell<Option<MDK<MdkMemoryStorage>>> = const { std::cell::RefCell::new(None) }; }

/// A creator invites a fresh joiner: returns the welcome rumor's (tags, content), and parks the joiner (which holds the key package's
/// private parts) for the next WELC evaluation.
fn welcome_world() -> (Vec<Vec<String>>, String, Keys) { welcome_world_named("g") }
fn welcome_world_named(name: &str) -> (Vec<Vec<String>>, String, Keys) {
    let (creator, joiner) = (MDK::new(MdkMemoryStorage::new()), MDK::new(MdkMemoryStorage::new()));
    let (ck, jk) = (Keys::generate(), Keys::generate());
    let relay = RelayUrl::parse("wss://test.relay").unwrap();
    let (c, t, _) = joiner.create_key_package_for_event(&jk.public_key(), vec![relay.clone()]).unwrap();
    let kpe = EventBuilder::new(Kind::MlsKeyPackage, c).tags(t).sign_with_keys(&jk).unwrap();
    let cfg = NostrGroupConfigData::new(name.into(), "d".into(), None, None, None, vec![relay], vec![ck.public_key()]);
    let r = creator.create_group(&ck.public_key(), vec![kpe], cfg).unwrap();
    let rumor = &r.welcome_rumors[0];
    let tags: Vec<Vec<String>> = rumor.tags.iter().map(|t| t.as_slice().to_vec()).collect();
    JOINER.with(|j| *j.borrow_mut() = Some(joiner));
    (tags, rumor.content.clone(), jk)
}
fn welcome_tls_ok(content: &str) -> u8 {
    let Ok(raw) = BASE64.decode(content) else { return 0 };
    match catch_unwind(AssertUnwindSafe(|| MlsMessageIn::tls_deserialize_exact(raw.as_slice()))) { Ok(Ok(m)) => matches!(m.extract(), MlsMessageBodyIn::Welcome(_)) as u8, _ => 0 }
}

fn b64_mutations(r: &mut Rng, good: &str) -> Vec<(&'static str, String)> {
    let mut v = vec![];
    let raw = BASE64.decode(good).unwrap();
    let extra = r.range(1, 3) as usize; let mut t = raw.clone(); t.extend(r.bytes(extra)); v.push(("trailing-bytes", BASE64.encode(&t)));
    let mut t = raw.clone(); t.truncate(raw.len() - r.range(1, 40) as usize); v.push(("truncated", BASE64.encode(&t)));
    let mut s = good.to_string(); let k = r.below(s.len() as u64 - 4) as usize; s.replace_range(k..k + 1, "!"); v.push(("non-base64-char", s));
    v.push(("whitespace", format!("{}\n{}", &good[..8], &good[8..])));
    v.push(("url-safe-alphabet", good.replace('+', "-").replace('/', "_")));
    if good.ends_with('=') { v.push(("padding-dropped", good.trim_end_matches('=').to_string())); }
    v.push(("extra-padding", format!("{good}====")));
    v.push(("empty", String::new()));
    v
}

fn main() {
    if std::env::var("VERIF_SHOW_PANIC").is_err() { std::panic::set_hook(Box::new(|_| {})); }
    let out = arg("--out").unwrap_or("/verif/.cache/run/events".into());
    let mut run = Run::new(&out, "real key-package events and welcome rumors made by real MDK clients plus single-field mutations (kind, each required tag dropped / duplicated / re-spelled, encoding tag dropped or changed, i tag of another package, other signer, protocol 2.0, ciphersuite 0x0002, missing extension ids, trailing / truncated / non-base64 content), verdict and KeyPackageRef vs the Coq decision model given ground-truth facts; generated base64 / hex strings incl. every padding defect; non-trivial = every mutation and every malformed string");
    let n: u64 = arg("--n").and_then(|s| s.parse().ok()).unwrap_or(12);
    let mut r = Rng::from_env();
    // deterministic key pool so that replayed lines find their author's secret key
    let keys: Vec<Keys> = (1u8..=4).map(|i| Keys::new(nostr::SecretKey::from_slice(&[i; 32]).unwrap())).collect();
    let mut ctx = Ctx { mdk: MDK::new(MdkMemoryStorage::new()), keys, welcome: None };
    let do_line = |run: &mut Run, ctx: &mut Ctx, class: &str, nontriv: bool, line: String, must_refuse: Option<&str>| {
        let res = eval_impl(ctx, &line);
        if let Some(what) = must_refuse { if res.starts_with("ACCEPT") { run.oracle_fail("C15", "", format!("strictness: {what} was accepted"), line.clone()); } }
        if res == "PANIC" { run.oracle_fail("C06", "", "panic inside an event parser".into(), line.clone()); }
        run.case(class, nontriv, line, res);
    };
    if let Some(f) = arg("--cases") {
        for line in std::fs::read_to_string(f).unwrap().lines() { if line.is_empty() || line.starts_with('#') || line.starts_with("WELC") { continue; } do_line(&mut run, &mut ctx, "replay", true, line.to_string(), None); }
        run.finish();
        return;
    }
    // --- base64 / hex strings
    for i in 0..(n * 12) {
        let len = match i % 6 { 0 => 0, 1 => 1, 2 => 2, 3 => 3, _ => r.range(4, 40) } as usize;
        let b = r.bytes(len);
        do_line(&mut run, &mut ctx, "b64-enc", false, format!("B64E {}", hex(&b)), None);
        let good = BASE64.encode(&b);
        do_line(&mut run, &mut ctx, "b64-dec", false, format!("B64D {}", hex(good.as_bytes())), None);
        let mut s = good.clone().into_bytes();
        if !s.is_empty() {
            match r.below(6) {
                0 => { let k = r.below(s.len() as u64) as usize; s[k] = *r.pick(b"!-_ \n=~."); }
                1 => { s.pop(); }
                2 => { s.push(b'='); }
                3 => { let k = s.iter().rposition(|c| *c != b'=').unwrap(); let v = s[k]; s[k] = if v == b'/' { b'A' } else { v + 1 }; } // non-canonical trailing bits (or another value)
                4 => { s.insert(0, b' '); }
                _ => { if s.ends_with(b"=") { let k = s.len() - 1; s[k] = b'A'; } else { s.extend(b"=="); } }
            }
            do_line(&mut run, &mut ctx, "b64-malformed", true, format!("B64D {}", hex(&s)), None);
        }
        let h = hex::encode(&b);
        let hs = match r.below(5) { 0 => h.to_uppercase(), 1 => format!("{h}0"), 2 => format!("{h}zz"), 3 => format!("0x{h}"), _ => h };
        do_line(&mut run, &mut ctx, "hex-dec", true, format!("HEXD {}", hex(hs.as_bytes())), None);
    }
    // --- key-package events
    let relay = RelayUrl::parse("wss://test.relay").unwrap();
    for i in 0..n {
        let me = ctx.keys[(i % 4) as usize].clone();
        let other = ctx.keys[((i + 1) % 4) as usize].clone();
        let (content, tags, _) = ctx.mdk.create_key_package_for_event_with_options(&me.public_key(), vec![relay.clone()], i % 2 == 0).unwrap();
        let (content2, tags2, _) = ctx.mdk.create_key_package_for_event(&other.public_key(), vec![relay.clone()]).unwrap();
        let base: Vec<Vec<String>> = tags.iter().map(|t| t.as_slice().to_vec()).collect();
        let base2: Vec<Vec<String>> = tags2.iter().map(|t| t.as_slice().to_vec()).collect();
        let set = |name: &str, vals: &[&str]| -> Vec<Vec<String>> { base.iter().map(|t| if t[0] == name { std::iter::once(name.to_string()).chain(vals.iter().map(|s| s.to_string())).collect() } else { t.clone() }).collect() };
        let drop = |name: &str| -> Vec<Vec<String>> { base.iter().filter(|t| t[0] != name).cloned().collect() };
        let first = |extra: Vec<&str>| -> Vec<Vec<String>> { let mut v = vec![extra.iter().map(|s| s.to_string()).collect::<Vec<_>>()]; v.extend(base.clone()); v };
        let i2 = base2.iter().find(|t| t[0] == "i").unwrap()[1].clone();
        let iv = base.iter().find(|t| t[0] == "i").unwrap()[1].clone();
        let mut cases: Vec<(&str, u16, Keys, String, Vec<Vec<String>>, Option<&str>)> = vec![
            ("valid", 443, me.clone(), content.clone(), base.clone(), None),
            ("wrong-kind", *r.pick(&[444u16, 445, 1, 0, 30443]), me.clone(), content.clone(), base.clone(), Some("a key-package event of another kind")),
            ("encoding-dropped", 443, me.clone(), content.clone(), drop("encoding"), Some("a key-package event without encoding tag")),
            ("encoding-hex", 443, me.clone(), content.clone(), set("encoding", &[*r.pick(&["hex", "base32", "", "base64url", "base64 "])]), Some("a key-package event with a non-base64 encoding tag")),
            ("encoding-uppercase", 443, me.clone(), content.clone(), set("encoding", &["BASE64"]), None),
            ("encoding-first-invalid", 443, me.clone(), content.clone(), first(vec!["encoding", "hex"]), None),
            ("i-of-other-package", 443, me.clone(), content.clone(), set("i", &[&i2]), Some("an i tag that does not match the package")),
            ("i-uppercase", 443, me.clone(), content.clone(), set("i", &[&iv.to_uppercase()]), None),
            ("i-two-values", 443, me.clone(), content.clone(), set("i", &[&iv, &iv]), None),
            ("i-odd-hex", 443, me.clone(), content.clone(), set("i", &[&iv[1..]]), Some("an i tag that does not match the package")),
            ("i-empty", 443, me.clone(), content.clone(), set("i", &[""]), Some("an i tag that does not match the package")),
            ("i-prefix-half", 443, me.clone(), content.clone(), set("i", &[&iv[..iv.len() / 2]]), Some("an i tag that is only a prefix of the package reference")),
            ("i-prefix-one-byte", 443, me.clone(), content.clone(), set("i", &[&iv[..2]]), Some("an i tag that is only a prefix of the package reference")),
            ("i-with-trailing-bytes", 443, me.clone(), content.clone(), set("i", &[&format!("{iv}00ff")]), Some("an i tag longer than the package reference")),
            ("i-last-byte-changed", 443, me.clone(), content.clone(), set("i", &[&format!("{}{:02x}", &iv[..iv.len() - 2], u8::from_str_radix(&iv[iv.len() - 2..], 16).unwrap() ^ 1)]), Some("an i tag that does not match the package")),
            ("other-signer", 443, other.clone(), content.clone(), base.clone(), Some("a key package whose credential identity is not the event author")),
            ("other-content", 443, me.clone(), content2.clone(), base.clone(), Some("a key package whose credential identity is not the event author")),
            ("protocol-2.0", 443, me.clone(), content.clone(), set("mls_protocol_version", &[*r.pick(&["2.0", "1", "1.00", " 1.0", ""])]), Some("a wrong protocol version tag")),
            ("protocol-first-wrong", 443, me.clone(), content.clone(), first(vec!["mls_protocol_version", "2.0"]), Some("a wrong protocol version tag")),
            ("ciphersuite-0x0002", 443, me.clone(), content.clone(), set("mls_ciphersuite", &[*r.pick(&["0x0002", "0x001", "0001", "0x00001", "1"])]), Some("a wrong ciphersuite tag")),
            // six BYTES but not six ASCII characters: a multi-byte character straddling the "0x" prefix (byte offset 2) or elsewhere
            ("ciphersuite-non-ascii", 443, me.clone(), content.clone(), set("mls_ciphersuite", &[*r.pick(&["0\u{e9}001", "\u{20ac}001", "0\u{20ac}01", "\u{1f600}01", "0x0\u{e9}1"])]), Some("a wrong ciphersuite tag")),
            ("extensions-non-ascii", 443, me.clone(), content.clone(), set("mls_extensions", &["0x000a", *r.pick(&["0\u{e9}001", "\u{20ac}001", "0\u{20ac}01", "\u{1f600}01"]), "0xf2ee", "0x0003"]), Some("an extensions tag without the required ids")),
            ("ciphersuite-uppercase", 443, me.clone(), content.clone(), set("mls_ciphersuite", &["0X0001"]), None),
            ("extensions-missing-id", 443, me.clone(), content.clone(), set("mls_extensions", &[*r.pick(&["0x000a", "0xf2ee", "0x0003"])]), Some("an extensions tag without the required ids")),
            ("extensions-uppercase", 443, me.clone(), content.clone(), set("mls_extensions", &["0x000A", "0xF2EE", "0x0003"]), None),
            ("extensions-empty", 443, me.clone(), content.clone(), set("mls_extensions", &[]), Some("an extensions tag without the required ids")),
            ("relays-empty", 443, me.clone(), content.clone(), set("relays", &[]), None),
            ("relays-bad", 443, me.clone(), content.clone(), set("relays", &["wss://ok.example", "not a url"]), None),
            ("tag-dropped", 443, me.clone(), content.clone(), drop(*r.pick(&["mls_protocol_version", "mls_ciphersuite", "mls_extensions", "relays", "i"])), Some("a key-package event without a required tag")),
            ("unknown-tag-added", 443, me.clone(), content.clone(), first(vec!["x-unknown", "1", "2"]), None),
        ];
        for (cls, c) in b64_mutations(&mut r, &content) {
            let must = match cls { "trailing-bytes" => Some("trailing bytes after the TLS value"), "non-base64-char" | "whitespace" | "url-safe-alphabet" | "padding-dropped" | "extra-padding" => Some("content that is not canonical base64"), "truncated" | "empty" => Some("a truncated key package"), _ => None };
            cases.push((cls, 443, me.clone(), c, base.clone(), must));
        }
        for (cls, kind, signer, c, t, must) in cases {
            let facts = kp_facts(&ctx.mdk, &c, &t);
            let line = format!("KPEV kind={kind} author={} content={} tags={} | {facts}", hex(signer.public_key().as_bytes()), hex(c.as_bytes()), tags_field(&t));
            do_line(&mut run, &mut ctx, &format!("kp-{cls}"), cls != "valid", line, must);
        }
    }
    // --- welcome rumors (each evaluation consumes a fresh joiner)
    for i in 0..n {
        let muts: Vec<&str> = vec!["valid", "wrong-kind", "encoding-dropped", "encoding-hex", "encoding-uppercase", "e-dropped", "e-empty", "client-empty", "client-dropped", "relays-dropped", "relays-bad", "padding-dropped", "trailing-bytes", "non-base64-char", "truncated", "padding-or-space"];
        let m = muts[(i as usize) % muts.len()];
        for which in [m, muts[r.below(muts.len() as u64) as usize]] {
            // the padding mutation needs content whose length is not a multiple of three: vary the group name until it is padded
            let (tags, content, jk) = if which == "padding-dropped" {
                let mut w = welcome_world_named("g");
                for name in ["gg", "ggg", "gggg"] { if w.1.ends_with('=') { break; } w = welcome_world_named(name); }
                w
            } else { welcome_world() };
            ctx.welcome = Some((tags.clone(), content.clone(), jk, vec![]));
            let set = |name: &str, vals: &[&str]| -> Vec<Vec<String>> { tags.iter().map(|t| if t[0] == name { std::iter::once(name.to_string()).chain(vals.iter().map(|s| s.to_string())).collect() } else { t.clone() }).collect() };
            let drop = |name: &str| -> Vec<Vec<String>> { tags.iter().filter(|t| t[0] != name).cloned().collect() };
            let raw = BASE64.decode(&content).unwrap();
            let (kind, t, c, must): (u16, Vec<Vec<String>>, String, Option<&str>) = match which {
                "wrong-kind" => (*r.pick(&[443u16, 445, 1]), tags.clone(), content.clone(), Some("a welcome rumor of another kind")),
                "encoding-dropped" => (444, drop("encoding"), content.clone(), Some("a welcome rumor without encoding tag")),
                "encoding-hex" => (444, set("encoding", &["hex"]), content.clone(), Some("a welcome rumor with a non-base64 encoding tag")),
                "encoding-uppercase" => (444, set("encoding", &["BASE64"]), content.clone(), None),
                "e-dropped" => (444, drop("e"), content.clone(), None),
                "e-empty" => (444, set("e", &[""]), content.clone(), None),
                "client-empty" => (444, set("client", &[""]), content.clone(), None),
                "client-dropped" => (444, drop("client"), content.clone(), None),
                "relays-dropped" => (444, drop("relays"), content.clone(), None),
                "relays-bad" => (444, set("relays", &["nope"]), content.clone(), None),
                "trailing-bytes" => { let mut x = raw.clone(); x.push(0); (444, tags.clone(), BASE64.encode(&x), Some("trailing bytes after the TLS value of a welcome")) }
                "non-base64-char" => { let mut s = content.clone(); s.replace_range(5..6, "!"); (444, tags.clone(), s, Some("welcome content that is not base64")) }
                "truncated" => { let mut x = raw.clone(); x.truncate(raw.len() / 2); (444, tags.clone(), BASE64.encode(&x), Some("a truncated welcome")) }
                "padding-or-space" => (444, tags.clone(), format!(" {content}"), Some("welcome content that is not base64")),
                "padding-dropped" => (444, tags.clone(), content.trim_end_matches('=').to_string(), if content.ends_with('=') { Some("welcome content that is not canonical base64") } else { None }),
                _ => (444, tags.clone(), content.clone(), None),
            };
            let good: Vec<String> = t.iter().filter(|x| x[0] == "relays").flat_map(|x| x.iter().skip(1)).filter(|u| RelayUrl::parse(u).is_ok()).map(|u| hex(u.as_bytes())).collect();
            let line = format!("WELC kind={kind} content={} tags={} | tls={} relays={}", hex(c.as_bytes()), tags_field(&t), welcome_tls_ok(&c), if good.is_empty() { "-".into() } else { good.join(",") });
            do_line(&mut run, &mut ctx, &format!("welcome-{which}"), which != "valid", line, must);
        }
    }
    run.finish();
    println!("event_codec_diff: {} cases, {} oracle failures", run.cases.len(), run.oracle.len());
}
