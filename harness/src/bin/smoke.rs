fn main() { println!("ok"); }
