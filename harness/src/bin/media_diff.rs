//! media_diff - C17: encrypted media (MIP-04) and group images on the real code.
//!
//! Every case is a text line; the implementation result is computed *from the line* (payloads and tamper positions derive from a
//! hash of the line), so a replay is just a file of case lines (`--cases <file>`).  The extracted Coq model (ocaml/drv_media.ml)
//! evaluates the same lines.
//!
//!   MCTX <hash> <mime> <name> <version>   HKDF info and AEAD AAD bytes.  crypto.rs keeps build_hkdf_context / build_aad private, so the
//!        harness rebuilds both strings itself and PROVES them equal to the real ones through the primitives: HKDF-Expand(exporter
//!        secret, rebuilt info) must equal the real derive_encryption_key output, and ChaCha20-Poly1305(key, nonce, rebuilt AAD, "") must
//!        equal the real encrypt_data_with_aad output (16-byte tag).  Only then are the bytes printed; the model prints its own.
//!   MIME <bytes> / FNAME <bytes>          validate_mime_type / validate_filename verdict (observed through parse_imeta_tag)
//!   MCOLL                                 two different (mime, name) pairs with a NUL give the same key on the unvalidated low-level API
//!   MRT <backend> <size> <mime> <name> <raw>   round trip, cross-member, single-field and single-bit tampers, non-members, key separation
//!   MLATER <backend> <j> <k>              encrypt at epoch e; receiver processes the announcement after j commits, decrypts after k >= j
//!   MSAME <backend>                       the same file announced at two epochs
//!   MIMG <w> <h>                          group image v2 / v1 / migration / extension publication / tampers
use std::io::Cursor;
use std::panic::{AssertUnwindSafe, catch_unwind};

use chacha20poly1305::aead::{Aead, KeyInit, Payload};
use chacha20poly1305::{ChaCha20Poly1305, Nonce};
use hkdf::Hkdf;
use mdk_core::encrypted_media::crypto::{derive_encryption_key, encrypt_data_with_aad};
use mdk_core::encrypted_media::{MediaProcessingOptions, MediaReference};
use mdk_core::extension::group_image::{decrypt_group_image, derive_upload_keypair, migrate_group_image_v1_to_v2, prepare_group_image_for_upload, prepare_group_image_for_upload_with_options};
use mdk_core::groups::NostrGroupDataUpdate;
use mdk_core::{GroupId, MDK};
use mdk_memory_storage::MdkMemoryStorage;
use mdk_sqlite_storage::MdkSqliteStorage;
use mdk_storage_traits::{MdkStorageProvider, Secret};
use mdk_verif_harness::out::{Run, arg, hex};
use mdk_verif_harness::rng::Rng;
use mdk_verif_harness::world::World;
use nostr::{EventBuilder, Kind, Tag, TagKind, UnsignedEvent};
use openmls_traits::OpenMlsProvider;
use sha2::{Digest, Sha256};

const V2: &str = "mip04-v2";
const KNOWN_LATE: &str = "announcement-processed-after-commit-wrong-epoch-hint";
const KNOWN_SAME: &str = "same-file-announced-at-two-epochs-wrong-epoch-hint";

fn unhex(s: &str) -> Vec<u8> { if s == "-" { vec![] } else { hex::decode(s).unwrap() } }
fn line_seed(line: &str) -> u64 { let mut h = 0xcbf29ce484222325u64; for b in line.bytes() { h ^= b as u64; h = h.wrapping_mul(0x100000001b3); } h }
fn tmp_root() -> String { std::env::var("VERIF_TMP").unwrap_or("/verif/.cache/tmp".into()) }

type Fail = (String, String); // (known class or "", description)

fn png(w: u32, h: u32, seed: u64) -> Vec<u8> { img_bytes(w, h, seed, image::ImageFormat::Png) }
fn img_bytes(w: u32, h: u32, seed: u64, f: image::ImageFormat) -> Vec<u8> {
    let mut r = Rng::new(seed);
    let (a, b) = (r.next() as u8, r.next() as u8);
    let img = image::RgbImage::from_fn(w.max(1), h.max(1), |x, y| image::Rgb([(x as u8).wrapping_mul(7) ^ a, (y as u8).wrapping_mul(13) ^ b, (x + y) as u8]));
    let mut out = Cursor::new(Vec::new());
    image::DynamicImage::ImageRgb8(img).write_to(&mut out, f).unwrap();
    out.into_inner()
}
fn payload(size: usize, mime: &str, seed: u64) -> Vec<u8> {
    match mime {
        "image/png" => png(size as u32 % 97 + 1, 9, seed),
        "image/jpeg" => img_bytes(size as u32 % 97 + 1, 9, seed, image::ImageFormat::Jpeg),
        "image/gif" => img_bytes(size as u32 % 97 + 1, 9, seed, image::ImageFormat::Gif),
        "image/webp" => img_bytes(size as u32 % 97 + 1, 9, seed, image::ImageFormat::WebP),
        _ => Rng::new(seed).bytes(size),
    }
}

/// Two groups of real clients on one backend plus a client that is in no group.
struct Env<S: MdkStorageProvider> { w: World<S>, w2: World<S>, outsider: MDK<S> }
impl<S: MdkStorageProvider> Env<S> {
    fn new<F: Fn(usize) -> S>(mk: &F) -> Self { Env { w: World::new(3, 0b111, 5, mk), w2: World::new(2, 0b11, 5, mk), outsider: MDK::new(mk(99)) } }
}

fn same_ref(a: &MediaReference, b: &MediaReference) -> bool {
    a.url == b.url && a.original_hash == b.original_hash && a.mime_type == b.mime_type && a.filename == b.filename && a.dimensions == b.dimensions && a.scheme_version == b.scheme_version && a.nonce == b.nonce
}

/// The real code's HKDF info and AAD for (version, hash, mime, name), established through the primitives (see module doc).
fn real_ctx_aad<S: MdkStorageProvider>(mdk: &MDK<S>, gid: &GroupId, version: &str, hash: &[u8; 32], mime: &str, name: &str) -> String {
    let key = match catch_unwind(AssertUnwindSafe(|| derive_encryption_key(mdk, gid, version, hash, mime, name))) {
        Err(_) => return "PANIC".into(), Ok(Err(_)) => return "ERR".into(), Ok(Ok(k)) => k };
    let epoch = mdk.get_group(gid).unwrap().unwrap().epoch;
    let secret = mdk.provider.storage().get_group_exporter_secret(gid, epoch).unwrap().unwrap().secret;
    let mut ctx = Vec::new();
    for (i, part) in [version.as_bytes(), &hash[..], mime.as_bytes(), name.as_bytes(), b"key"].iter().enumerate() { if i > 0 { ctx.push(0u8); } ctx.extend_from_slice(part); }
    let mut aad = Vec::new();
    for (i, part) in [version.as_bytes(), &hash[..], mime.as_bytes(), name.as_bytes()].iter().enumerate() { if i > 0 { aad.push(0u8); } aad.extend_from_slice(part); }
    let mut k2 = [0u8; 32];
    Hkdf::<Sha256>::new(None, secret.as_ref()).expand(&ctx, &mut k2).unwrap();
    if k2 != *key { return "IMPL-CTX-DIFFERS-FROM-REBUILT".into(); }
    let nonce = [7u8; 12];
    let real_tag = match encrypt_data_with_aad(b"", &key, &Secret::new(nonce), version, hash, mime, name) { Ok(t) => t, Err(_) => return "ERR".into() };
    let my_tag = ChaCha20Poly1305::new_from_slice(&k2).unwrap().encrypt(Nonce::from_slice(&nonce), Payload { msg: b"", aad: &aad }).unwrap();
    if real_tag != my_tag { return "IMPL-AAD-DIFFERS-FROM-REBUILT".into(); }
    format!("OK ctx={} aad={}", hex(&ctx), hex(&aad))
}

fn imeta_probe<S: MdkStorageProvider>(mdk: &MDK<S>, gid: &GroupId, mime: &str, name: &str) -> Result<MediaReference, ()> {
    let tag = Tag::custom(TagKind::Custom("imeta".into()), vec![
        "url https://b.example/x".to_string(), format!("m {mime}"), format!("filename {name}"), format!("x {}", "ab".repeat(32)), format!("n {}", "cd".repeat(12)), format!("v {V2}")]);
    match catch_unwind(AssertUnwindSafe(|| mdk.media_manager(gid.clone()).parse_imeta_tag(&tag))) { Ok(Ok(r)) => Ok(r), _ => Err(()) }
}

/// A's announcement of an upload: an application message (kind 9 rumor) carrying the imeta tag.
fn announce<S: MdkStorageProvider>(w: &World<S>, m: usize, tag: Tag, n: u64) -> nostr::Event {
    let mut rumor: UnsignedEvent = EventBuilder::new(Kind::Custom(9), format!("file {n}")).tag(tag)
        .custom_created_at(nostr::Timestamp::from(w.base_ts + 10 + n)).build(w.clients[m].keys.public_key());
    rumor.ensure_id();
    mdk_core::verif_hooks::set_wrapper_created_at(Some(w.base_ts + 10 + n));
    w.clients[m].mdk.create_message(&w.gid, rumor).unwrap()
}
fn commit_all<S: MdkStorageProvider>(w: &mut World<S>, by: usize, ev: u64) -> bool {
    let (_, fp) = w.exec(&format!("PR COMMIT {by} su {ev} {}", 100 + ev));
    if !fp.starts_with("res=ok") { return false; }
    w.exec(&format!("PR MERGE {by} {ev}"));
    for m in 0..w.clients.len() { if m != by { let (_, fp) = w.exec(&format!("PR DELIVER {m} {ev} {}", 100 + ev)); if !fp.starts_with("res=Commit") { return false; } } }
    true
}
fn errname(e: &mdk_core::encrypted_media::EncryptedMediaError) -> String { format!("{e:?}").split(|c: char| !c.is_alphanumeric()).next().unwrap_or("").to_string() }

fn eval_mrt<S: MdkStorageProvider>(env: &Env<S>, line: &str, t: &[&str], fails: &mut Vec<Fail>) -> String {
    let size: usize = t[2].parse().unwrap();
    let mime = String::from_utf8(unhex(t[3])).unwrap();
    let name = String::from_utf8(unhex(t[4])).unwrap();
    let raw = t[5] == "raw";
    let seed = line_seed(line);
    let mut r = Rng::new(seed);
    let data = payload(size, &mime, seed);
    let opts = if raw { MediaProcessingOptions { sanitize_exif: false, generate_blurhash: false, ..Default::default() } } else { MediaProcessingOptions::default() };
    let (w, gid) = (&env.w, env.w.gid.clone());
    let mgr = |i: usize| w.clients[i].mdk.media_manager(gid.clone());
    let mut bad = |what: String| { fails.push((String::new(), what)); };
    let up = match catch_unwind(AssertUnwindSafe(|| mgr(0).encrypt_for_upload_with_options(&data, &mime, &name, &opts))) {
        Ok(Ok(u)) => u,
        Ok(Err(e)) => { bad(format!("encrypt_for_upload refused a valid {mime} payload of {} bytes named {:?}: {}", data.len(), name, errname(&e))); return "bad".into(); }
        Err(_) => { bad("encrypt_for_upload panicked".into()); return "bad".into(); }
    };
    let url = "https://blossom.example/abc";
    let rf = mgr(0).create_media_reference(&up, url.to_string());
    // imeta tag round trip (C15 promise, checked here on the values used for decryption)
    let tag = mgr(0).create_imeta_tag(&up, url);
    match mgr(1).parse_imeta_tag(&tag) { Ok(r2) if same_ref(&r2, &rf) => {}, Ok(_) => bad("parse_imeta_tag(create_imeta_tag(u)) differs from create_media_reference(u)".into()), Err(e) => bad(format!("parse_imeta_tag refused the tag create_imeta_tag built: {}", errname(&e))) }
    // every member of the epoch obtains the same bytes
    let mut plains = vec![];
    for i in 0..3 {
        match catch_unwind(AssertUnwindSafe(|| mgr(i).decrypt_from_download(&up.encrypted_data, &rf))) {
            Ok(Ok(p)) => plains.push(p),
            Ok(Err(e)) => { bad(format!("member {i} of the encryption epoch cannot decrypt: {}", errname(&e))); return "bad".into(); }
            Err(_) => { bad("decrypt_from_download panicked".into()); return "bad".into(); }
        }
    }
    if plains.iter().any(|p| *p != plains[0]) { bad("members decrypt to different bytes".into()); }
    let h: [u8; 32] = Sha256::digest(&plains[0]).into();
    if h != up.original_hash { bad("decrypted bytes do not hash to original_hash".into()); }
    if (raw || !mime.starts_with("image/")) && plains[0] != data { bad("decrypted bytes differ from the encrypted file".into()); }
    // another member's upload of the same file: same key, different ciphertext (fresh nonce), decryptable by the first member
    if let Ok(up2) = mgr(1).encrypt_for_upload_with_options(&data, &mime, &name, &opts) {
        let k0 = derive_encryption_key(&w.clients[0].mdk, &gid, V2, &up.original_hash, &up.mime_type, &name).unwrap();
        let k1 = derive_encryption_key(&w.clients[1].mdk, &gid, V2, &up2.original_hash, &up2.mime_type, &name).unwrap();
        if *k0 != *k1 { bad("two members derive different keys for the same file".into()); }
        if up2.nonce == up.nonce || (up2.encrypted_data == up.encrypted_data && !data.is_empty()) { bad("two uploads share nonce/ciphertext".into()); }
        let rf2 = mgr(1).create_media_reference(&up2, url.to_string());
        if !matches!(mgr(0).decrypt_from_download(&up2.encrypted_data, &rf2), Ok(p) if p == plains[0]) { bad("member 0 cannot decrypt member 1's upload".into()); }
    } else { bad("member 1 cannot encrypt what member 0 could".into()); }
    // tampers: each must be an error (never Ok with other bytes, never Ok at all)
    let mut tamper = |what: &str, enc: &[u8], rf: &MediaReference| {
        match catch_unwind(AssertUnwindSafe(|| mgr(2).decrypt_from_download(enc, rf))) {
            Ok(Err(_)) => {}
            Ok(Ok(p)) => fails.push((String::new(), format!("tampered {what}: decryption returned Ok ({})", if p == plains[0] { "the original bytes" } else { "DIFFERENT bytes" }))),
            Err(_) => fails.push((String::new(), format!("tampered {what}: panic"))),
        }
    };
    let mut x = rf.clone(); x.filename = format!("{}x", rf.filename); tamper("filename(append)", &up.encrypted_data, &x);
    let mut x = rf.clone(); x.filename = rf.filename.to_uppercase(); if x.filename != rf.filename { tamper("filename(case)", &up.encrypted_data, &x); }
    let mut x = rf.clone(); x.mime_type = if rf.mime_type == "text/plain" { "application/pdf".into() } else { "text/plain".into() }; tamper("mime", &up.encrypted_data, &x);
    let mut x = rf.clone(); x.mime_type = rf.mime_type.to_uppercase(); tamper("mime(case)", &up.encrypted_data, &x);
    let mut x = rf.clone(); x.mime_type = format!("{}; q=1", rf.mime_type); tamper("mime(param)", &up.encrypted_data, &x);
    for bit in [0usize, 7, 128, 255] { let mut x = rf.clone(); x.original_hash[bit / 8] ^= 1 << (bit % 8); tamper(&format!("hash bit {bit}"), &up.encrypted_data, &x); }
    for v in ["mip04-v1", "mip04-v3", "", "MIP04-V2"] { let mut x = rf.clone(); x.scheme_version = v.into(); tamper(&format!("version {v:?}"), &up.encrypted_data, &x); }
    for bit in 0..96 { let mut x = rf.clone(); x.nonce[bit / 8] ^= 1 << (bit % 8); tamper(&format!("nonce bit {bit}"), &up.encrypted_data, &x); }
    let nbits = up.encrypted_data.len() * 8;
    let bits: Vec<usize> = if nbits <= 64 * 8 { (0..nbits).collect() } else { (0..200).map(|_| r.below(nbits as u64) as usize).collect() };
    for bit in bits { let mut e = up.encrypted_data.clone(); e[bit / 8] ^= 1 << (bit % 8); tamper(&format!("ciphertext bit {bit}"), &e, &rf); }
    let mut e = up.encrypted_data.clone(); e.pop(); tamper("ciphertext truncated", &e, &rf);
    let mut e = up.encrypted_data.clone(); e.push(0); tamper("ciphertext extended", &e, &rf);
    tamper("ciphertext empty", &[], &rf);
    // the url is not bound (it is where the blob was found); changing it must not matter
    let mut x = rf.clone(); x.url = "https://other.example/zzz".into();
    if !matches!(mgr(2).decrypt_from_download(&up.encrypted_data, &x), Ok(p) if p == plains[0]) { fails.push((String::new(), "changing only the url made decryption fail".into())); }
    // nobody else: a client in no group, a member of another group (with its own group id and with this group's id)
    let others: [(&str, &MDK<S>, GroupId); 3] = [("client in no group", &env.outsider, gid.clone()), ("member of another group (own group id)", &env.w2.clients[0].mdk, env.w2.gid.clone()), ("member of another group (this group id)", &env.w2.clients[1].mdk, gid.clone())];
    for (who, mdk, g) in others {
        match catch_unwind(AssertUnwindSafe(|| mdk.media_manager(g.clone()).decrypt_from_download(&up.encrypted_data, &rf))) {
            Ok(Err(_)) => {}
            Ok(Ok(_)) => fails.push((String::new(), format!("{who} decrypted the file"))),
            Err(_) => fails.push((String::new(), format!("{who}: panic"))),
        }
    }
    // different file / name / mime / group: different keys
    let dk = |mdk: &MDK<S>, g: &GroupId, h: &[u8; 32], m: &str, n: &str| derive_encryption_key(mdk, g, V2, h, m, n).map(|k| *k).ok();
    let a = &w.clients[0].mdk;
    let mut h2 = up.original_hash; h2[31] ^= 1;
    let keys = [dk(a, &gid, &up.original_hash, &up.mime_type, &name), dk(a, &gid, &h2, &up.mime_type, &name), dk(a, &gid, &up.original_hash, &up.mime_type, &format!("{name}2")),
                dk(a, &gid, &up.original_hash, if up.mime_type == "text/plain" { "application/pdf" } else { "text/plain" }, &name), dk(&env.w2.clients[0].mdk, &env.w2.gid, &up.original_hash, &up.mime_type, &name)];
    for i in 0..keys.len() { for j in 0..i { if keys[i].is_none() || keys[i] == keys[j] { fails.push((String::new(), format!("key separation: derivations {j} and {i} (0 base, 1 other file, 2 other name, 3 other mime, 4 other group) coincide or fail"))); } } }
    if fails.is_empty() { "ok".into() } else { "bad".into() }
}

fn eval_mlater<S: MdkStorageProvider, F: Fn(usize) -> S>(mk: &F, line: &str, t: &[&str], fails: &mut Vec<Fail>) -> String {
    let (j, k): (u64, u64) = (t[2].parse().unwrap(), t[3].parse().unwrap());
    let mut w: World<S> = World::new(3, 0b111, 5, mk);
    let gid = w.gid.clone();
    let data = Rng::new(line_seed(line)).bytes(300);
    let up = w.clients[0].mdk.media_manager(gid.clone()).encrypt_for_upload(&data, "application/pdf", "report 1.pdf").unwrap();
    let tag = w.clients[0].mdk.media_manager(gid.clone()).create_imeta_tag(&up, "https://b.example/f");
    let ann = announce(&w, 0, tag.clone(), 1);
    let mut processed = String::from("-");
    for c in 0..=k {
        if c == j {
            let r = catch_unwind(AssertUnwindSafe(|| w.clients[1].mdk.process_message(&ann)));
            processed = match r { Ok(r) => mdk_verif_harness::world::result_kind(&r).to_string(), Err(_) => "PANIC".into() };
            // the sender receives the relay echo of its own announcement at the same point (after j commits)
            let _ = catch_unwind(AssertUnwindSafe(|| w.clients[0].mdk.process_message(&ann)));
        }
        if c < k && !commit_all(&mut w, 2, c) { fails.push((String::new(), format!("self-update commit {c} was not applied by everyone"))); return "setup-failed".into(); }
    }
    let rf = match w.clients[1].mdk.media_manager(gid.clone()).parse_imeta_tag(&tag) { Ok(r) => r, Err(_) => { fails.push((String::new(), "receiver cannot parse the imeta tag".into())); return "bad".into(); } };
    let dec = |i: usize| match catch_unwind(AssertUnwindSafe(|| w.clients[i].mdk.media_manager(gid.clone()).decrypt_from_download(&up.encrypted_data, &rf))) {
        Ok(Ok(p)) => if p == data { "ok".to_string() } else { "DIFFERENT-BYTES".to_string() }, Ok(Err(e)) => format!("fail:{}", errname(&e)), Err(_) => "PANIC".into() };
    let (b, a) = (dec(1), dec(0));
    if b != "ok" {
        let cls = if j >= 1 && b.starts_with("fail") { KNOWN_LATE } else { "" };
        fails.push((cls.into(), format!("member of the encryption epoch cannot decrypt {k} commits later when the announcement was processed after {j} of them (processing result {processed}): {b}")));
    }
    if a != "ok" { fails.push((String::new(), format!("the sender cannot decrypt its own upload {k} commits later: {a}"))); }
    format!("B={} A={}", if b == "ok" { "ok" } else { "fail" }, if a == "ok" { "ok" } else { "fail" })
}

fn eval_msame<S: MdkStorageProvider, F: Fn(usize) -> S>(mk: &F, line: &str, fails: &mut Vec<Fail>) -> String {
    let mut w: World<S> = World::new(3, 0b111, 5, mk);
    let gid = w.gid.clone();
    let data = Rng::new(line_seed(line)).bytes(200);
    let mut ups = vec![];
    for n in 0..2u64 {
        let up = w.clients[0].mdk.media_manager(gid.clone()).encrypt_for_upload(&data, "text/plain", "notes.txt").unwrap();
        let tag = w.clients[0].mdk.media_manager(gid.clone()).create_imeta_tag(&up, &format!("https://b.example/{n}"));
        let ann = announce(&w, 0, tag.clone(), n + 1);
        let _ = w.clients[1].mdk.process_message(&ann);
        ups.push((up, tag));
        if !commit_all(&mut w, 2, n) { return "setup-failed".into(); }
    }
    let mut res = vec![];
    for (n, (up, tag)) in ups.iter().enumerate() {
        let rf = w.clients[1].mdk.media_manager(gid.clone()).parse_imeta_tag(tag).unwrap();
        let ok = matches!(catch_unwind(AssertUnwindSafe(|| w.clients[1].mdk.media_manager(gid.clone()).decrypt_from_download(&up.encrypted_data, &rf))), Ok(Ok(p)) if p == data);
        if !ok { fails.push((KNOWN_SAME.into(), format!("the same file was announced at two epochs; the receiver (announcements processed immediately) cannot decrypt upload {} one commit after the second", n + 1))); }
        res.push(ok);
    }
    match (res[0], res[1]) { (true, true) => "both-ok".into(), (false, false) => "both-fail".into(), _ => "one-fails".into() }
}

fn pixels(b: &[u8]) -> Option<(u32, u32, Vec<u8>)> { image::load_from_memory(b).ok().map(|i| { let r = i.to_rgb8(); (r.width(), r.height(), r.into_raw()) }) }

fn eval_mimg(line: &str, t: &[&str], fails: &mut Vec<Fail>) -> String {
    let (wd, ht): (u32, u32) = (t[1].parse().unwrap(), t[2].parse().unwrap());
    let seed = line_seed(line);
    let mut r = Rng::new(seed);
    let data = png(wd, ht, seed);
    let mut bad = |s: String| fails.push((String::new(), s));
    let raw = MediaProcessingOptions { sanitize_exif: false, generate_blurhash: false, ..Default::default() };
    // v2, bytes kept as they are
    match prepare_group_image_for_upload_with_options(&data, "image/png", &raw) {
        Err(_) => bad("prepare_group_image_for_upload refused a valid PNG".into()),
        Ok(u) => {
            let enc: &Vec<u8> = &u.encrypted_data;
            for hash in [Some(&u.encrypted_hash), None] {
                if !matches!(decrypt_group_image(enc, hash, &u.image_key, &u.image_nonce), Ok(p) if p == data) { bad(format!("v2 image does not decrypt with the published seed and nonce (hash given: {})", hash.is_some())); }
            }
            let h: [u8; 32] = Sha256::digest(enc).into();
            if h != u.encrypted_hash { bad("encrypted_hash is not the hash of the blob".into()); }
            for bit in 0..256 { let mut k = *u.image_key; k[bit / 8] ^= 1 << (bit % 8); if decrypt_group_image(enc, Some(&u.encrypted_hash), &Secret::new(k), &u.image_nonce).is_ok() { bad(format!("image decrypts with seed bit {bit} flipped")); } }
            for bit in 0..96 { let mut n = *u.image_nonce; n[bit / 8] ^= 1 << (bit % 8); if decrypt_group_image(enc, Some(&u.encrypted_hash), &u.image_key, &Secret::new(n)).is_ok() { bad(format!("image decrypts with nonce bit {bit} flipped")); } }
            for _ in 0..200 {
                let bit = r.below(enc.len() as u64 * 8) as usize; let mut e = enc.clone(); e[bit / 8] ^= 1 << (bit % 8);
                if decrypt_group_image(&e, Some(&u.encrypted_hash), &u.image_key, &u.image_nonce).is_ok() { bad(format!("image blob bit {bit} flipped accepted (hash given)")); }
                if decrypt_group_image(&e, None, &u.image_key, &u.image_nonce).is_ok() { bad(format!("image blob bit {bit} flipped accepted (legacy, no hash)")); }
            }
            let mut wrong = u.encrypted_hash; wrong[0] ^= 1;
            if decrypt_group_image(enc, Some(&wrong), &u.image_key, &u.image_nonce).is_ok() { bad("image accepted under a different expected hash".into()); }
            match derive_upload_keypair(&u.image_upload_key, 2) { Ok(k) if k.public_key() == u.upload_keypair.public_key() => {}, _ => bad("upload keypair is not derive_upload_keypair(upload seed, 2)".into()) }
            match (derive_upload_keypair(&u.image_upload_key, 1), derive_upload_keypair(&u.image_key, 2)) { (Ok(a), Ok(b)) if a.public_key() != u.upload_keypair.public_key() && b.public_key() != u.upload_keypair.public_key() => {}, _ => bad("upload keypair not separated by version / seed".into()) }
            if derive_upload_keypair(&u.image_upload_key, 3).is_ok() { bad("derive_upload_keypair accepted version 3".into()); }
        }
    }
    // v2 with default processing: decrypts to an image with the same pixels
    match prepare_group_image_for_upload(&data, "image/png") {
        Ok(u) => match decrypt_group_image(&u.encrypted_data, Some(&u.encrypted_hash), &u.image_key, &u.image_nonce) { Ok(p) if pixels(&p).is_some() && pixels(&p) == pixels(&data) => {}, _ => bad("sanitised v2 image does not decrypt to the same pixels".into()) },
        Err(_) => bad("prepare_group_image_for_upload (default options) refused a valid PNG".into()),
    }
    // v1: the published key is the cipher key itself
    let (k1, n1) = (r.bytes(32), r.bytes(12));
    let v1 = ChaCha20Poly1305::new_from_slice(&k1).unwrap().encrypt(Nonce::from_slice(&n1), &data[..]).unwrap();
    let h1: [u8; 32] = Sha256::digest(&v1).into();
    let (k1s, n1s) = (Secret::new(<[u8; 32]>::try_from(&k1[..]).unwrap()), Secret::new(<[u8; 12]>::try_from(&n1[..]).unwrap()));
    for hash in [Some(&h1), None] { if !matches!(decrypt_group_image(&v1, hash, &k1s, &n1s), Ok(p) if p == data) { bad(format!("v1 image does not decrypt with the published key and nonce (hash given: {})", hash.is_some())); } }
    let mut kx = *k1s; kx[5] ^= 4; if decrypt_group_image(&v1, Some(&h1), &Secret::new(kx), &n1s).is_ok() { bad("v1 image decrypts with a different key".into()); }
    match migrate_group_image_v1_to_v2(&v1, Some(&h1), &k1s, &n1s, "image/png") {
        Ok(u) => match decrypt_group_image(&u.encrypted_data, Some(&u.encrypted_hash), &u.image_key, &u.image_nonce) { Ok(p) if pixels(&p).is_some() && pixels(&p) == pixels(&data) => {}, _ => bad("migrated image does not decrypt to the same pixels".into()) },
        Err(_) => bad("migrate_group_image_v1_to_v2 failed on a valid v1 image".into()),
    }
    // publication in the group data: another member reads seed/nonce/hash from its group record after the commit and decrypts
    let mut w: World<MdkMemoryStorage> = World::new(3, 0b111, 5, |_| MdkMemoryStorage::new());
    let gid = w.gid.clone();
    let u = prepare_group_image_for_upload_with_options(&data, "image/png", &raw).unwrap();
    let upd = NostrGroupDataUpdate::new().image_hash(Some(u.encrypted_hash)).image_key(Some(*u.image_key)).image_nonce(Some(*u.image_nonce)).image_upload_key(Some(*u.image_upload_key));
    match w.clients[0].mdk.update_group_data(&gid, upd) {
        Ok(res) => {
            let _ = w.clients[0].mdk.merge_pending_commit(&gid);
            let _ = w.clients[1].mdk.process_message(&res.evolution_event);
            let g = w.clients[1].mdk.get_group(&gid).unwrap().unwrap();
            match (g.image_hash, g.image_key, g.image_nonce) {
                (Some(h), Some(k), Some(n)) => if !matches!(decrypt_group_image(&u.encrypted_data, Some(&h), &k, &n), Ok(p) if p == data) { bad("a member cannot decrypt the group image with the seed and nonce it read from the group data".into()) },
                _ => bad("image fields did not reach the other member's group record".into()),
            }
        }
        Err(_) => bad("update_group_data with image fields refused".into()),
    }
    let _ = &mut w;
    if fails.is_empty() { "ok".into() } else { "bad".into() }
}

struct Backends { mem: Option<Env<MdkMemoryStorage>>, sql: Option<Env<MdkSqliteStorage>>, dir: tempfile::TempDir, cnt: std::cell::Cell<u64> }
impl Backends {
    fn mk_sql(&self) -> impl Fn(usize) -> MdkSqliteStorage + '_ { move |i| { self.cnt.set(self.cnt.get() + 1); MdkSqliteStorage::new_unencrypted(self.dir.path().join(format!("m{}_{}.db", self.cnt.get(), i))).unwrap() } }
}

/// Evaluate one case line on the implementation: (result line, oracle failures).
fn eval_impl(b: &mut Backends, line: &str) -> (String, Vec<Fail>) {
    let t: Vec<&str> = line.split(' ').collect();
    let mut fails = vec![];
    if b.mem.is_none() { b.mem = Some(Env::new(&|_| MdkMemoryStorage::new())); }
    let res = match t[0] {
        "MCTX" => {
            let env = b.mem.as_ref().unwrap();
            let hash: [u8; 32] = unhex(t[1]).try_into().unwrap();
            real_ctx_aad(&env.w.clients[0].mdk, &env.w.gid, std::str::from_utf8(&unhex(t[4])).unwrap(), &hash, std::str::from_utf8(&unhex(t[2])).unwrap(), std::str::from_utf8(&unhex(t[3])).unwrap())
        }
        "MIME" => { let env = b.mem.as_ref().unwrap(); match imeta_probe(&env.w.clients[0].mdk, &env.w.gid, std::str::from_utf8(&unhex(t[1])).unwrap(), "a.bin") { Ok(r) => format!("OK {}", hex(r.mime_type.as_bytes())), Err(_) => "ERR".into() } }
        "FNAME" => { let env = b.mem.as_ref().unwrap(); match imeta_probe(&env.w.clients[0].mdk, &env.w.gid, "text/plain", std::str::from_utf8(&unhex(t[1])).unwrap()) { Ok(r) => format!("OK {}", hex(r.filename.as_bytes())), Err(_) => "ERR".into() } }
        "MCOLL" => {
            let env = b.mem.as_ref().unwrap();
            let (m, g) = (&env.w.clients[0].mdk, &env.w.gid);
            let h = [7u8; 32];
            let k1 = derive_encryption_key(m, g, V2, &h, "text/plain\0x", "y").map(|k| *k);
            let k2 = derive_encryption_key(m, g, V2, &h, "text/plain", "x\0y").map(|k| *k);
            // the validated entry points must refuse both spellings
            if m.media_manager(g.clone()).encrypt_for_upload(b"abc", "text/plain", "x\0y").is_ok() { fails.push((String::new(), "encrypt_for_upload accepted a file name containing NUL".into())); }
            if m.media_manager(g.clone()).encrypt_for_upload(b"abc", "text/plain\0x", "y").is_ok() { fails.push((String::new(), "encrypt_for_upload accepted a MIME type containing NUL".into())); }
            match (k1, k2) { (Ok(a), Ok(b)) if a == b => "collide".into(), (Ok(_), Ok(_)) => "distinct".into(), _ => "ERR".into() }
        }
        "MRT" => if t[1] == "sqlite" { if b.sql.is_none() { let e = Env::new(&b.mk_sql()); b.sql = Some(e); } eval_mrt(b.sql.as_ref().unwrap(), line, &t, &mut fails) } else { eval_mrt(b.mem.as_ref().unwrap(), line, &t, &mut fails) },
        "MLATER" => if t[1] == "sqlite" { eval_mlater(&b.mk_sql(), line, &t, &mut fails) } else { eval_mlater(&|_| MdkMemoryStorage::new(), line, &t, &mut fails) },
        "MSAME" => if t[1] == "sqlite" { eval_msame(&b.mk_sql(), line, &mut fails) } else { eval_msame(&|_| MdkMemoryStorage::new(), line, &mut fails) },
        "MIMG" => eval_mimg(line, &t, &mut fails),
        _ => "UNKNOWN-CASE".into(),
    };
    (res, fails)
}

const MIMES: &[&str] = &["image/png", "image/jpeg", "image/gif", "image/webp", "video/mp4", "video/webm", "audio/mpeg", "audio/ogg", "application/pdf", "text/plain", "application/octet-stream"];
const NAMES: &[&str] = &["a.bin", "report 1.pdf", "x", "\u{fc}ber gr\u{f6}\u{df}e \u{1f600}.png", "UPPER.Case.TXT", "trailing.dot.", " leading space", "semi;colon=1.txt", "per%cent_under.txt"];

fn run_line(run: &mut Run, b: &mut Backends, class: &str, line: String) {
    let (res, fails) = match catch_unwind(AssertUnwindSafe(|| eval_impl(b, &line))) { Ok(x) => x, Err(_) => ("PANIC".into(), vec![(String::new(), "harness-level panic while evaluating the case".into())]) };
    for (cls, d) in fails { run.oracle_fail("C17", &cls, d, line.clone()); }
    run.case(class, !matches!(class, "ctx-plain"), line, res);
}

fn main() {
    if std::env::var("VERIF_SHOW_PANIC").is_err() { std::panic::set_hook(Box::new(|_| {})); }
    let out = arg("--out").unwrap_or("/verif/.cache/run/media".into());
    let mut run = Run::new(&out, "HKDF-info/AAD bytes of the real key derivation and AEAD (established through HKDF-SHA256 / ChaCha20-Poly1305 on rebuilt strings) vs the Coq model for generated (hash, MIME, file name, version) incl. NUL, empty, non-ASCII and 210-byte names; validator verdicts for generated MIME spellings and file names; round trip / cross-member / every single-field tamper / all 96 nonce bits / all or 200 sampled ciphertext bits / truncation / non-members / key separation for payload sizes 0..1e6 and 11 MIME types on both storage backends; later-epoch decryption j<=k<=6 with the announcement processed before or after the commits; group image v2, v1, migration, publication in the group data, tampers; non-trivial = every case except plain valid context lines");
    std::fs::create_dir_all(tmp_root()).unwrap();
    let mut b = Backends { mem: None, sql: None, dir: tempfile::Builder::new().prefix("media").tempdir_in(tmp_root()).unwrap(), cnt: std::cell::Cell::new(0) };
    if let Some(f) = arg("--cases") {
        for line in std::fs::read_to_string(f).unwrap().lines() { if line.is_empty() || line.starts_with('#') { continue; } run_line(&mut run, &mut b, "replay", line.to_string()); }
        run.finish();
        return;
    }
    let n: u64 = arg("--n").and_then(|s| s.parse().ok()).unwrap_or(150);
    let thorough = std::env::var("VERIF_TIER").map(|t| t == "thorough").unwrap_or(false);
    let mut r = Rng::from_env();
    if let Ok(c) = std::fs::read_to_string("/verif/corpus/media.txt") { for line in c.lines() { if line.is_empty() || line.starts_with('#') { continue; } run_line(&mut run, &mut b, "corpus", line.to_string()); } }
    // --- correspondence: context / AAD bytes and validator verdicts
    for i in 0..n {
        let hash = r.bytes(32);
        let mime: String = match r.below(8) { 0 => "text/plain\0x".into(), 1 => String::new(), 2 => "a\0b".into(), 3 => "IMAGE/PNG ".into(), _ => r.pick(MIMES).to_string() };
        let name: String = match r.below(10) { 0 => "x\0y".into(), 1 => String::new(), 2 => "n".repeat(210), 3 => "\0".into(), 4 => "a\0\0b\0".into(), _ => r.pick(NAMES).to_string() };
        let ver = match r.below(10) { 0 => "mip04-v1", 1 => "", 2 => "mip04-v3", _ => V2 };
        let plain = ver == V2 && !mime.contains('\0') && !name.contains('\0');
        run_line(&mut run, &mut b, if plain { "ctx-plain" } else { "ctx-odd" }, format!("MCTX {} {} {} {}", hex(&hash), hex(mime.as_bytes()), hex(name.as_bytes()), hex(ver.as_bytes())));
        if i % 3 == 0 {
            let base = r.pick(MIMES).to_string();
            let sp = match r.below(9) { 0 => base.to_uppercase(), 1 => format!("  {base}\t"), 2 => format!("{base}; charset=utf-8"), 3 => format!("{base} ;x"), 4 => "image/svg+xml".into(), 5 => "text".into(), 6 => format!("{base}/"), 7 => format!("{}/{}", "a".repeat(60), "b".repeat(45)), _ => base };
            run_line(&mut run, &mut b, "mime", format!("MIME {}", hex(sp.as_bytes())));
            let nm: String = match r.below(12) { 0 => "a/b".into(), 1 => "a\\b".into(), 2 => "tab\there".into(), 3 => "del\u{7f}".into(), 4 => "c1\u{85}x".into(), 5 => "n".repeat(211), 6 => "n".repeat(210), 7 => format!("{}\u{e9}", "n".repeat(209)), 8 => "\u{c2}\u{a0}nbsp ok".into(), 9 => "nul\0".into(), _ => r.pick(NAMES).to_string() };
            run_line(&mut run, &mut b, "fname", format!("FNAME {}", hex(nm.as_bytes())));
        }
    }
    run_line(&mut run, &mut b, "collide", "MCOLL".into());
    // --- oracles on the real code
    let sizes: &[usize] = &[0, 1, 31, 32, 33, 1000, 1_000_000];
    for backend in ["mem", "sqlite"] {
        for (mi, mime) in MIMES.iter().enumerate() {
            let szs: Vec<usize> = if mime.starts_with("image/") { vec![1, 40] } else if thorough || mi % 4 == 1 || *mime == "text/plain" { sizes.to_vec() } else { vec![*r.pick(sizes), *r.pick(sizes)] };
            for (si, s) in szs.iter().enumerate() {
                if backend == "sqlite" && !thorough && *s == 1_000_000 && *mime != "text/plain" { continue; }
                let name = NAMES[(mi + si) % NAMES.len()];
                let raw = if mime.starts_with("image/") && si == 1 { "raw" } else { "std" };
                run_line(&mut run, &mut b, "roundtrip-tamper", format!("MRT {backend} {s} {} {} {raw}", hex(mime.as_bytes()), hex(name.as_bytes())));
            }
        }
        // accepted but non-canonical spellings of the MIME type (case, surrounding blanks, parameters): the caller's spelling
        // must not leak into the key derivation or the AAD, otherwise nobody can decrypt the upload
        for (k, sp) in ["Text/Plain", "  text/plain  ", "text/plain; charset=utf-8", "APPLICATION/OCTET-STREAM", "Application/Pdf", "application/octet-stream; x=1"].iter().enumerate() {
            let s = sizes[(k * 2 + 1) % 6];
            run_line(&mut run, &mut b, "roundtrip-spelling", format!("MRT {backend} {s} {} {} std", hex(sp.as_bytes()), hex(NAMES[k % NAMES.len()].as_bytes())));
        }
        for k in 0..=6u64 {
            let js: Vec<u64> = if thorough { (0..=k).collect() } else { let mut v = vec![0, k]; if k >= 2 { v.push(r.range(1, k - 1)); } v.sort(); v.dedup(); v };
            for j in js { if backend == "sqlite" && !thorough && j != 0 && j != k { continue; } run_line(&mut run, &mut b, "later-epoch", format!("MLATER {backend} {j} {k}")); }
        }
        run_line(&mut run, &mut b, "same-file-twice", format!("MSAME {backend}"));
    }
    for (w, h) in [(1u32, 1u32), (16, 16), (64, 48), (300, 200)] { run_line(&mut run, &mut b, "group-image", format!("MIMG {w} {h}")); }
    run.finish();
    println!("media_diff: {} cases, {} oracle failures", run.cases.len(), run.oracle.len());
}
