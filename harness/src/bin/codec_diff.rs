//! codec_diff – correspondence between the Coq codec models and the implementation's parsers/serialisers
//! (group-data extension first; key-package events, welcome rumors and media tags are added as cases).
//!
//! Every case is a text line; the implementation result is computed *from the line*, so a replay is just
//! a file of case lines (`--cases <file>`).
use std::collections::BTreeSet;
use std::panic::{AssertUnwindSafe, catch_unwind};
thread_local! { static LAST_PANIC: std::cell::RefCell<String> = std::cell::RefCell::new(String::new()); }

use mdk_core::extension::NostrGroupDataExtension;
use mdk_verif_harness::out::{Run, arg, hex, hexlist};
use mdk_verif_harness::rng::Rng;
use nostr::{PublicKey, RelayUrl, Url};
use tls_codec::{DeserializeBytes, Serialize as TlsSerializeTrait, TlsDeserializeBytes, TlsSerialize, TlsSize};

/// Replica of the crate-private TLS struct, used only to (a) craft malformed encodings and (b) list the
/// relay byte strings of an input so that the `RelayUrl::parse` oracle table can be supplied to the model.
#[derive(Debug, Clone, PartialEq, Eq, TlsSerialize, TlsDeserializeBytes, TlsSize)]
struct RawExt {
    version: u16,
    nostr_group_id: [u8; 32],
    name: Vec<u8>,
    description: Vec<u8>,
    admin_pubkeys: Vec<[u8; 32]>,
    relays: Vec<Vec<u8>>,
    image_hash: Vec<u8>,
    image_key: Vec<u8>,
    image_nonce: Vec<u8>,
    image_upload_key: Vec<u8>,
}

fn relay_oracle_entry(input: &[u8]) -> String {
    match std::str::from_utf8(input).ok().and_then(|s| RelayUrl::parse(s).ok()) {
        Some(u) => {
            let key: Url = u.clone().into();
            format!("{}>{}>{}", hex(input), hex(key.as_str().as_bytes()), hex(u.to_string().as_bytes()))
        }
        None => format!("{}>!", hex(input)),
    }
}

fn oracle_for(relays: &BTreeSet<Vec<u8>>) -> String {
    let v: Vec<String> = relays.iter().map(|r| relay_oracle_entry(r)).collect();
    if v.is_empty() { "-".into() } else { v.join(",") }
}

fn show_ext(e: &NostrGroupDataExtension) -> String {
    let o = |x: Option<&[u8]>| x.map(hex).unwrap_or("-".into());
    format!(
        "OK v={} gid={} name={} descr={} admins={} relays={} ih={} ik={} in={} iu={}",
        e.version,
        hex(&e.nostr_group_id),
        hex(e.name.as_bytes()),
        hex(e.description.as_bytes()),
        hexlist(e.admins.iter().map(|p| p.as_bytes().to_vec())),
        hexlist(e.relays.iter().map(|r| { let u: Url = r.clone().into(); u.as_str().as_bytes().to_vec() })),
        o(e.image_hash.as_ref().map(|x| &x[..])),
        o(e.image_key.as_ref().map(|x| &x[..])),
        o(e.image_nonce.as_ref().map(|x| &x[..])),
        o(e.image_upload_key.as_ref().map(|x| &x[..])),
    )
}

fn kv<'a>(toks: &'a [&'a str], k: &str) -> &'a str {
    for t in toks {
        if let Some(rest) = t.strip_prefix(k) {
            if let Some(v) = rest.strip_prefix('=') { return v; }
        }
    }
    "-"
}
fn unhex(s: &str) -> Vec<u8> { if s == "-" { vec![] } else { hex::decode(s).unwrap() } }
fn unhexlist(s: &str) -> Vec<Vec<u8>> { if s == "-" { vec![] } else { s.split(',').map(unhex).collect() } }

/// Evaluate one case line on the implementation.  Returns (result line, oracle failure).
fn eval_impl(line: &str) -> (String, Option<(String, String, String)>) {
    let toks: Vec<&str> = line.split(' ').collect();
    match toks[0] {
        "EXTDEC" => {
            let bytes = unhex(toks[1]);
            let r = catch_unwind(AssertUnwindSafe(|| NostrGroupDataExtension::verif_from_bytes(&bytes)));
            match r {
                Err(_) => ("PANIC".into(), None),
                Ok(Err(_)) => ("ERR".into(), None),
                Ok(Ok(e)) => (show_ext(&e), None),
            }
        }
        "EXTENC" => {
            let arr32 = |s: &str| -> Option<[u8; 32]> { if s == "-" { None } else { Some(unhex(s).try_into().unwrap()) } };
            let relays: Vec<RelayUrl> = if kv(&toks, "relays") == "-" { vec![] } else {
                kv(&toks, "relays").split(',').map(|kp| {
                    let p = kp.split('>').nth(2).unwrap();
                    RelayUrl::parse(std::str::from_utf8(&unhex(p)).unwrap()).unwrap()
                }).collect()
            };
            let e = NostrGroupDataExtension {
                version: kv(&toks, "v").parse().unwrap(),
                nostr_group_id: unhex(kv(&toks, "gid")).try_into().unwrap(),
                name: String::from_utf8(unhex(kv(&toks, "name"))).unwrap(),
                description: String::from_utf8(unhex(kv(&toks, "descr"))).unwrap(),
                admins: unhexlist(kv(&toks, "admins")).into_iter().map(|a| PublicKey::from_byte_array(a.try_into().unwrap())).collect(),
                relays: relays.into_iter().collect(),
                image_hash: arr32(kv(&toks, "ih")),
                image_key: arr32(kv(&toks, "ik")),
                image_nonce: if kv(&toks, "in") == "-" { None } else { Some(unhex(kv(&toks, "in")).try_into().unwrap()) },
                image_upload_key: arr32(kv(&toks, "iu")),
            };
            let r = catch_unwind(AssertUnwindSafe(|| e.verif_to_bytes()));
            match r {
                Err(_) => ("PANIC".into(), None),
                Ok(Err(_)) => ("ERR".into(), None),
                Ok(Ok(b)) => {
                    // property oracle on the implementation: what is serialised parses back to an equal value
                    let back = catch_unwind(AssertUnwindSafe(|| NostrGroupDataExtension::verif_from_bytes(&b)));
                    let rt = matches!(&back, Ok(Ok(e2)) if *e2 == e);
                    let fail = if rt { None } else {
                        // known class: a relay whose printed form does not parse back to the same url
                        let relay_unstable = e.relays.iter().any(|r| RelayUrl::parse(&r.to_string()).map(|r2| r2 != *r).unwrap_or(true));
                        let class = if relay_unstable { "relay-url-print-parse-unstable" } else { "" };
                        Some(("C15".to_string(), class.to_string(), format!("group-data extension does not parse back to an equal value (encoded {})", hex(&b))))
                    };
                    (format!("OK rt={} {}", rt, hex(&b)), fail)
                }
            }
        }
        _ => ("UNKNOWN-CASE".into(), None),
    }
}

// ---------------------------------------------------------------- generation

const RELAY_POOL: &[&str] = &[
    "wss://relay.example.com", "wss://relay.example.com/", "ws://10.0.0.1:7777", "wss://a.b/path",
    "wss://a.b/path/", "wss://EXAMPLE.com", "wss://relay.damus.io", "wss://nos.lol/", "wss://a.b/x/ ",
    "wss://a.b:443", "ws://a.b:80/", "wss://r.x/?q=1", "wss://b\u{fc}cher.example",
];
const BAD_RELAYS: &[&[u8]] = &[b"https://a.b", b"not a url", b"wss://", b"\xff\xfe", b"", b"wss://a://b", b"ftp://x.y"];

fn gen_string(r: &mut Rng) -> String {
    let n = match r.below(10) { 0 => 0, 1 => 63, 2 => 64, 3 => 65, 4 => r.range(16380, 16390), _ => r.range(1, 40) } as usize;
    let mut s = String::new();
    while s.len() < n {
        let c = match r.below(8) {
            0 => char::from_u32(r.range(0x80, 0x7ff) as u32),
            1 => char::from_u32(r.range(0x800, 0xd7ff) as u32),
            2 => char::from_u32(r.range(0xe000, 0xffff) as u32),
            3 => char::from_u32(r.range(0x10000, 0x10ffff) as u32),
            4 => Some('\0'),
            _ => char::from_u32(r.range(0x20, 0x7e) as u32),
        };
        if let Some(c) = c { s.push(c); }
    }
    s
}

fn gen_raw(r: &mut Rng) -> RawExt {
    let opt = |r: &mut Rng, n: usize| if r.chance(1, 2) { r.bytes(n) } else { vec![] };
    let nadm = match r.below(6) { 0 => 0, 1 => 1, 2 => 2, _ => r.range(1, 6) } as usize;
    let mut admins: Vec<[u8; 32]> = (0..nadm).map(|_| r.bytes(32).try_into().unwrap()).collect();
    if nadm >= 2 && r.chance(1, 4) { admins[1] = admins[0]; } // duplicate
    let nrel = r.below(4) as usize;
    let relays = (0..nrel).map(|_| r.pick(RELAY_POOL).as_bytes().to_vec()).collect();
    RawExt {
        version: match r.below(6) { 0 => 1, 1 => 2, 2 => 3, 3 => 65535, _ => r.range(1, 65535) as u16 },
        nostr_group_id: r.bytes(32).try_into().unwrap(),
        name: gen_string(r).into_bytes(),
        description: gen_string(r).into_bytes(),
        admin_pubkeys: admins,
        relays,
        image_hash: opt(r, 32), image_key: opt(r, 32), image_nonce: opt(r, 12), image_upload_key: opt(r, 32),
    }
}

/// Structure-aware single-field mutations of a valid encoding; returns (class, bytes).
fn mutate(r: &mut Rng, raw: &RawExt) -> (&'static str, Vec<u8>) {
    let good = raw.tls_serialize_detached().unwrap();
    let mut m = raw.clone();
    match r.below(16) {
        0 => { let mut b = good.clone(); let n = r.range(1, 3) as usize; b.extend(r.bytes(n)); ("trailing", b) }
        1 => { let mut b = good.clone(); let k = r.below(b.len() as u64) as usize; b.truncate(k); ("truncated", b) }
        2 => { let mut b = good.clone(); let k = r.below(b.len() as u64) as usize; b[k] ^= 1 << r.below(8); ("bitflip", b) }
        3 => { m.version = 0; ("version0", m.tls_serialize_detached().unwrap()) }
        4 => { m.image_hash = { let n = *r.pick(&[1usize, 31, 33, 64]); r.bytes(n) }; ("bad-hash-len", m.tls_serialize_detached().unwrap()) }
        5 => { m.image_key = { let n = *r.pick(&[1usize, 31, 33]); r.bytes(n) }; ("bad-key-len", m.tls_serialize_detached().unwrap()) }
        6 => { m.image_nonce = { let n = *r.pick(&[1usize, 11, 13, 32]); r.bytes(n) }; ("bad-nonce-len", m.tls_serialize_detached().unwrap()) }
        7 => { m.image_upload_key = { let n = *r.pick(&[1usize, 31, 33]); r.bytes(n) }; ("bad-upload-len", m.tls_serialize_detached().unwrap()) }
        8 => { m.name = vec![0xff, 0xfe, 0x41]; ("bad-utf8-name", m.tls_serialize_detached().unwrap()) }
        9 => { m.description = vec![0xed, 0xa0, 0x80]; ("surrogate-descr", m.tls_serialize_detached().unwrap()) }
        10 => { m.relays.push(r.pick(BAD_RELAYS).to_vec()); ("bad-relay", m.tls_serialize_detached().unwrap()) }
        11 => {
            // non-minimal length prefix on the name field (offset 34): 1-byte form rewritten as 2-byte form
            let mut b = good.clone();
            if b[34] < 64 { let l = b[34]; b[34] = 0x40; b.insert(35, l); ("nonminimal-len", b) } else { b[34] = 0xC0; ("len-prefix-8byte", b) }
        }
        12 => {
            // admin vector whose declared length is not a multiple of 32 (element overrun)
            m.relays.clear(); m.name = b"n".to_vec(); m.description = b"d".to_vec();
            m.admin_pubkeys = vec![[7u8; 32], [9u8; 32]];
            let mut b = m.tls_serialize_detached().unwrap();
            // offset: 2 + 32 + 2 + 2 = 38 is the admins length byte (64 -> two-byte form 0x40 0x40)
            assert_eq!(&b[38..40], &[0x40, 0x40]);
            let decl = r.range(33, 63) as u8; b.splice(38..40, [decl]);
            ("admins-overrun", b)
        }
        13 => { let mut b = good.clone(); b[34] = 0xC0; ("len-prefix-8byte", b) }
        14 => { m.name = vec![0xf4, 0x90, 0x80, 0x80]; ("utf8-above-max", m.tls_serialize_detached().unwrap()) }
        _ => { m.description = vec![0xc0, 0xaf]; ("utf8-overlong", m.tls_serialize_detached().unwrap()) }
    }
}

fn dec_case(bytes: &[u8]) -> String {
    // relay oracle: every relay byte string a lenient raw parse sees, plus the pools
    let mut rel: BTreeSet<Vec<u8>> = BTreeSet::new();
    if let Ok(Ok((raw, _))) = catch_unwind(AssertUnwindSafe(|| RawExt::tls_deserialize_bytes(bytes))) {
        for x in raw.relays { rel.insert(x); }
    }
    format!("EXTDEC {} oracle={}", hex(bytes), oracle_for(&rel))
}

fn enc_case(raw: &RawExt) -> Option<String> {
    // typed value: names must be UTF-8, relays must parse
    // keep the string each RelayUrl was parsed from: printing is not injective on it
    let mut set: std::collections::BTreeMap<RelayUrl, Vec<u8>> = Default::default();
    for b in &raw.relays {
        if let Some(u) = std::str::from_utf8(b).ok().and_then(|s| RelayUrl::parse(s).ok()) { set.entry(u).or_insert(b.clone()); }
    }
    let admins: BTreeSet<Vec<u8>> = raw.admin_pubkeys.iter().map(|a| a.to_vec()).collect();
    let rel_field: Vec<String> = set.iter().map(|(u, orig)| { let k: Url = u.clone().into(); format!("{}>{}>{}", hex(k.as_str().as_bytes()), hex(u.to_string().as_bytes()), hex(orig)) }).collect();
    let printed: BTreeSet<Vec<u8>> = set.keys().map(|u| u.to_string().into_bytes()).collect();
    let o = |v: &Vec<u8>| hex(v);
    Some(format!(
        "EXTENC v={} gid={} name={} descr={} admins={} relays={} ih={} ik={} in={} iu={} oracle={}",
        raw.version, hex(&raw.nostr_group_id), hex(&raw.name), hex(&raw.description), hexlist(admins),
        if rel_field.is_empty() { "-".into() } else { rel_field.join(",") },
        o(&raw.image_hash), o(&raw.image_key), o(&raw.image_nonce), o(&raw.image_upload_key), oracle_for(&printed)
    ))
}

fn main() {
    // panics are caught; the hook remembers WHERE the last one was raised (ground truth for classifying it)
    std::panic::set_hook(Box::new(|info| { let loc = info.location().map(|l| l.file().to_string()).unwrap_or_default(); LAST_PANIC.with(|p| *p.borrow_mut() = loc); }));
    let out = arg("--out").unwrap_or("/verif/.cache/run/codec".into());
    let mut run = Run::new(&out, "generated extension values (all 16 presence patterns, boundary lengths 63/64/16383/16384, multi-byte UTF-8, duplicate admins, normalising relay urls) encoded and decoded, plus 16 kinds of structure-aware single-field mutation of each valid encoding; non-trivial = distinct case text that is either a mutation or a value with at least one optional field, admin or relay");
    if let Some(f) = arg("--cases") {
        for line in std::fs::read_to_string(f).unwrap().lines() {
            if line.is_empty() || line.starts_with('#') { continue; }
            let (res, fail) = eval_impl(line);
            if let Some((p, cls, d)) = fail { run.oracle_fail(&p, &cls, d, line.to_string()); }
            run.case("replay", true, line.to_string(), res);
        }
        run.finish();
        return;
    }
    let n: u64 = arg("--n").and_then(|s| s.parse().ok()).unwrap_or(400);
    let mut r = Rng::from_env();
    // corpus first
    if let Ok(c) = std::fs::read_to_string("/verif/corpus/codec.txt") {
        for line in c.lines() {
            if line.is_empty() || line.starts_with('#') { continue; }
            let (res, fail) = eval_impl(line);
            if let Some((p, cls, d)) = fail { run.oracle_fail(&p, &cls, d, line.to_string()); }
            run.case("corpus", true, line.to_string(), res);
        }
    }
    for _ in 0..n {
        let raw = gen_raw(&mut r);
        let good = raw.tls_serialize_detached().unwrap();
        let nontriv = !(raw.admin_pubkeys.is_empty() && raw.relays.is_empty() && raw.image_hash.is_empty() && raw.image_key.is_empty());
        // decode of a valid encoding
        let line = dec_case(&good);
        let (res, _) = eval_impl(&line);
        run.case("dec-valid", nontriv, line, res);
        // encode of the typed value
        if let Some(line) = enc_case(&raw) {
            let (res, fail) = eval_impl(&line);
            if let Some((p, cls, d)) = fail { run.oracle_fail(&p, &cls, d, line.to_string()); }
            run.case("enc", nontriv, line, res);
        }
        // mutations
        for _ in 0..3 {
            let (class, bytes) = mutate(&mut r, &raw);
            let line = dec_case(&bytes);
            let (res, _) = eval_impl(&line);
            // strictness oracle on the implementation, independent of the model: classes the property names must be refused
            let must_refuse = matches!(class, "trailing" | "version0" | "bad-hash-len" | "bad-key-len" | "bad-nonce-len" | "bad-upload-len" | "nonminimal-len");
            if must_refuse && res.starts_with("OK") {
                run.oracle_fail("C15", "", format!("strictness: a {class} encoding was accepted"), line.clone());
            }
            if class == "admins-overrun" && res.starts_with("OK") {
                run.oracle_fail("C15", "vector-element-overrun", "admin vector whose declared length is not a multiple of 32 accepted (elements read past the declared length)".into(), line.clone());
            }
            if res == "PANIC" {
                // the known finding is the debug assertion in tls_codec's variable-length-integer code, whichever mutation produced
                // the 8-byte length form
                let at = LAST_PANIC.with(|p| p.borrow().clone());
                let cls = if class == "len-prefix-8byte" || (at.contains("tls_codec") && at.contains("quic_vec")) { "tls-codec-debug-assert-8byte-length" } else { "" };
                run.oracle_fail("C06", cls, "panic inside the group-data extension parser".into(), line.clone());
            }
            run.case(&format!("mut-{class}"), true, line, res);
        }
    }
    run.finish();
    println!("codec_diff: {} cases, {} oracle failures", run.cases.len(), run.oracle.len());
}
