//! proto_diff – histories of member actions and deliveries run on real MDK clients (memory or SQLite backend) and
//! printed as the fingerprints the extracted Coq engine model (Mdk/Engine.v) must predict; plus property oracles
//! evaluated directly on the implementation after quiescence (C01 convergence, C02 messages, C07 idempotence, C08 mirror).
use std::collections::{BTreeMap, BTreeSet};

use mdk_memory_storage::MdkMemoryStorage;
use mdk_sqlite_storage::MdkSqliteStorage;
use mdk_storage_traits::MdkStorageProvider;
use mdk_verif_harness::out::{Run, arg};
use mdk_verif_harness::rng::Rng;
use mdk_verif_harness::world::World;

#[derive(Clone, Debug)]
struct EvMeta { kind: &'static str, author: usize, epoch_hint: u64 }

struct Gen {
    r: Rng, n: usize, admin_mask: u64, next_ev: u64, next_msg: u64,
    evs: BTreeMap<u64, EvMeta>, regime_causal: bool, immediate: bool,
    client_epoch: Vec<u64>,
}

impl Gen {
    fn ts(&mut self) -> u64 { 100 + self.r.below(4) }   // few distinct timestamps: ties and both orders
    /// Next action line (without facts).
    fn next<S: MdkStorageProvider>(&mut self, w: &World<S>) -> String {
        let k = self.r.below(100);
        let m = self.r.below(self.n as u64) as usize;
        let pending: Vec<(usize, u64)> = (0..self.n).filter_map(|c| w.pending_of(c).map(|e| (c, e))).collect();
        if k < 14 && !pending.iter().any(|(c, _)| *c == m) {
            let is_admin = self.admin_mask & (1 << m) != 0;
            let kind = if is_admin && self.r.chance(1, 3) { "rn" } else { "su" };
            let ev = self.next_ev; self.next_ev += 1;
            self.evs.insert(ev, EvMeta { kind: "commit", author: m, epoch_hint: self.client_epoch[m] });
            return format!("PR COMMIT {m} {kind} {ev} {}", self.ts());
        }
        if k < 22 {
            if !pending.is_empty() {
                let (m, ev) = *self.r.pick(&pending);
                if self.immediate || self.r.chance(1, 3) { return format!("PR MERGE {m} {ev}"); }
            }
        }
        if k < 24 && !pending.is_empty() { let (m, _) = *self.r.pick(&pending); return format!("PR CLEAR {m}"); }
        if k < 40 {
            let ev = self.next_ev; self.next_ev += 1; let msg = self.next_msg; self.next_msg += 1;
            self.evs.insert(ev, EvMeta { kind: "app", author: m, epoch_hint: self.client_epoch[m] });
            return format!("PR SEND {m} {ev} {} {msg}", self.ts());
        }
        // deliver (possibly a duplicate; possibly own echo)
        if self.evs.is_empty() { return format!("PR SEND {m} {} {} {}", { let e = self.next_ev; self.next_ev += 1; self.evs.insert(e, EvMeta { kind: "app", author: m, epoch_hint: self.client_epoch[m] }); e }, self.ts(), { let x = self.next_msg; self.next_msg += 1; x }); }
        let ids: Vec<u64> = self.evs.keys().cloned().collect();
        for _ in 0..8 {
            let ev = *self.r.pick(&ids);
            let meta = self.evs[&ev].clone();
            if self.regime_causal && meta.epoch_hint > self.client_epoch[m] { continue; }
            return format!("PR DELIVER {m} {ev}");
        }
        format!("PR DELIVER {m} {}", ids[0])
    }
}

fn run_world<S: MdkStorageProvider, F: Fn(usize) -> S>(run: &mut Run, lines_in: Option<Vec<String>>, r: &mut Rng, nhist: u64, steps: u64, mk: F, backend: &str) {
    let mut world: Option<World<S>> = None;
    let mut push = |run: &mut Run, class: &str, nontriv: bool, line: String, res: String| run.case(class, nontriv, line, res);
    if let Some(lines) = lines_in {
        for l in lines {
            let t: Vec<&str> = l.split(' ').collect();
            if t[1] == "RESET" { world = Some(World::new(t[2].parse().unwrap(), t[3].parse().unwrap(), t[4].parse().unwrap(), &mk)); push(run, "RESET", false, l.clone(), "RESET".into()); continue; }
            if t[1] == "BAD" { push(run, "BAD", false, l.clone(), "ok".into()); continue; }
            let (line, fp) = world.as_mut().unwrap().exec(&l);
            push(run, "replay", true, line, fp);
        }
        return;
    }
    for h in 0..nhist {
        let n = 3 + r.below(2) as usize;
        let admin_mask = 1 | (r.below(1 << n) & !1) ;
        let retention = *r.pick(&[5usize, 5, 5, 1, 2, 0]);
        let mut g = Gen { r: r.fork(), n, admin_mask, next_ev: 0, next_msg: 1, evs: BTreeMap::new(),
                          regime_causal: h % 3 != 2, immediate: h % 4 == 3, client_epoch: vec![1; n] };
        let mut w: World<S> = World::new(n, admin_mask, retention, &mk);
        let reset = format!("PR RESET {n} {admin_mask} {retention}");
        let mut seq: Vec<String> = vec![reset.clone()];
        push(run, "RESET", false, reset, "RESET".into());
        let nsteps = steps / 2 + g.r.below(steps);
        let mut rolled = false;
        for _ in 0..nsteps {
            let l = g.next(&w);
            let (line, fp) = w.exec(&l);
            if fp == "skip" { continue; }
            // keep generator's view of epochs in step with reality (record epoch printed as ep=)
            if let Some(m) = l.split(' ').nth(2).and_then(|x| x.parse::<usize>().ok()) { g.client_epoch[m] = w.mls_epoch(m); }
            if fp == "PANIC" { run.oracle_fail("C06", "", format!("[{backend}] panic in `{l}`"), seq.join(" || ") + " || " + &line); }
            if fp.contains(" rb=") && !fp.ends_with(" rb=0") { rolled = true; }
            let class = l.split(' ').nth(1).unwrap().to_string();
            seq.push(line.clone());
            push(run, &class, rolled, line, fp);
        }
        oracles(run, &mut w, &mut seq, backend);
    }
}

/// After the random part: offer every event to every member again until nothing changes (C01's premise), then
/// evaluate the property oracles on the implementation.  Lines executed here are part of the correspondence too.
fn oracles<S: MdkStorageProvider>(run: &mut Run, w: &mut World<S>, seq: &mut Vec<String>, backend: &str) {
    let n = w.clients.len();
    let evs: Vec<u64> = w.events.keys().cloned().collect();
    let mut last: Vec<String> = (0..n).map(|c| w.fingerprint(c, "-", None, None)).collect();
    for _pass in 0..6 {
        for &ev in &evs {
            for c in 0..n {
                let l = format!("PR DELIVER {c} {ev}");
                let (line, fp) = w.exec(&l);
                seq.push(line.clone());
                run.case("DELIVER-quiesce", true, line, fp);
            }
        }
        let now: Vec<String> = (0..n).map(|c| w.fingerprint(c, "-", None, None)).collect();
        if now == last { break; }
        last = now;
    }
    // C07: one more re-delivery of everything changes nothing observable
    let before: Vec<String> = (0..n).map(|c| w.fingerprint(c, "-", None, None)).collect();
    for &ev in &evs { for c in 0..n {
        let l = format!("PR DELIVER {c} {ev}");
        let (line, fp) = w.exec(&l);
        seq.push(line.clone());
        run.case("DELIVER-again", true, line, fp);
        let after = w.fingerprint(c, "-", None, None);
        if after != before[c] {
            run.oracle_fail("C07", "", format!("[{backend}] re-delivering event {ev} to member {c} after quiescence changed its state: {} -> {}", before[c], after), seq.join(" || "));
            return;
        }
    } }
    // C01: all remaining (active) members hold the same MLS state
    let auths: BTreeSet<String> = (0..n).filter(|&c| before[c].contains(" act=1 ")).map(|c| w.auth(c)).collect();
    if auths.len() > 1 {
        let detail: Vec<String> = (0..n).map(|c| format!("m{c}:{}", before[c].split(" props=").next().unwrap_or(""))).collect();
        let class = classify_divergence(w, seq);
        run.oracle_fail("C01", &class, format!("[{backend}] members did not converge after every event was re-offered until nothing changed: {}", detail.join(" ; ")), seq.join(" || "));
    }
    // C08: stored record mirrors the MLS state
    for c in 0..n {
        let f = &before[c];
        if !f.contains(" act=1 ") { continue; }
        let ep = f.split(" ep=").nth(1).and_then(|x| x.split(' ').next()).unwrap_or("");
        let mls = f.split(" mls=").nth(1).and_then(|x| x.split(' ').next()).unwrap_or("");
        if ep != mls { run.oracle_fail("C08", "", format!("[{backend}] member {c}: record epoch {ep} differs from MLS epoch {mls}"), seq.join(" || ")); }
    }
}

/// Known-finding classes for C01 divergence, decided from the history text (ground truth), not from the outcome.
fn classify_divergence<S: MdkStorageProvider>(_w: &World<S>, seq: &[String]) -> String {
    let has_merge = seq.iter().any(|l| l.starts_with("PR MERGE"));
    if has_merge { return "immediate-merge-no-snapshot".into(); }
    "".into()
}

fn main() {
    std::panic::set_hook(Box::new(|_| {}));
    let backend = arg("--backend").unwrap_or("mem".into());
    let out = arg("--out").unwrap_or(format!("/verif/.cache/run/proto-{backend}"));
    let mut run = Run::new(&out, "random histories of 3-4 real MDK clients (self-update and rename commits incl. concurrent ones on the same epoch, application messages, own-commit echo vs immediate merge, clear, duplicates, epoch-causal and unrestricted delivery, retention 0/1/2/5, few distinct wrapper timestamps to force ties), followed by re-offering every event to every member until nothing changes; every step's public-API fingerprint is compared with the extracted engine model; non-trivial = step executed after the first rollback of its history, or in the quiescence phase");
    std::fs::create_dir_all("/verif/.cache/tmp").unwrap();
    let mut r = Rng::from_env();
    let lines = arg("--cases").map(|f| std::fs::read_to_string(f).unwrap().lines().filter(|l| !l.is_empty() && !l.starts_with('#')).map(|l| l.to_string()).collect::<Vec<_>>());
    let nhist: u64 = arg("--hist").and_then(|s| s.parse().ok()).unwrap_or(20);
    let steps: u64 = arg("--steps").and_then(|s| s.parse().ok()).unwrap_or(40);
    if backend == "mem" {
        run_world(&mut run, lines, &mut r, nhist, steps, |_| MdkMemoryStorage::new(), "memory");
    } else {
        let dir = tempfile::Builder::new().prefix("proto").tempdir_in("/verif/.cache/tmp").unwrap();
        let cnt = std::cell::Cell::new(0u64);
        run_world(&mut run, lines, &mut r, nhist, steps, |i| { cnt.set(cnt.get() + 1); MdkSqliteStorage::new_unencrypted(dir.path().join(format!("c{}_{}.db", cnt.get(), i))).unwrap() }, "sqlite");
    }
    run.finish();
    println!("proto_diff[{backend}]: {} lines, {} oracle failures", run.cases.len(), run.oracle.len());
}
