//! proto_diff – histories of member actions and deliveries run on real MDK clients (memory or SQLite backend) and
//! printed as the fingerprints the extracted Coq engine model (Mdk/Engine.v) must predict; plus property oracles
//! evaluated directly on the implementation after quiescence (C01 convergence, C02 messages, C07 idempotence, C08 mirror).
use std::collections::{BTreeMap, BTreeSet};

use mdk_memory_storage::MdkMemoryStorage;
use mdk_sqlite_storage::MdkSqliteStorage;
use mdk_storage_traits::MdkStorageProvider;
use mdk_verif_harness::out::{Run, arg};
use mdk_verif_harness::rng::Rng;
use mdk_verif_harness::world::World;

#[derive(Clone, Debug)]
struct EvMeta { kind: &'static str, author: usize, epoch_hint: u64 }

struct Gen {
    r: Rng, n: usize, admin_mask: u64, next_ev: u64, next_msg: u64,
    evs: BTreeMap<u64, EvMeta>, regime_causal: bool, immediate: bool,
    client_epoch: Vec<u64>, delivered: BTreeSet<u64>, left: Option<usize>, adv: u32, twin: bool, removed: bool,
    no_send: BTreeSet<usize>,   // clients that re-entered an MLS state through a rollback triggered by one of their own commits (see run_world)
}

impl Gen {
    fn ts(&mut self) -> u64 { 100 + self.r.below(4) }   // few distinct timestamps: ties and both orders
    /// Next action line (without facts).
    fn next<S: MdkStorageProvider>(&mut self, w: &World<S>) -> String {
        let k = self.r.below(100);
        let m = self.r.below(self.n as u64) as usize;
        // a client that re-entered an MLS state with fresh ratchets creates nothing more (only deliveries are generated for it)
        let k = if self.no_send.contains(&m) { 50 } else { k };
        let pending: Vec<(usize, u64)> = (0..self.n).filter_map(|c| w.pending_of(c).map(|e| (c, e))).collect();
        if k < 14 && !pending.iter().any(|(c, _)| *c == m) {
            let is_admin = w.is_admin_now(m);
            // an admin grants or revokes admin rights (no leave proposals are generated afterwards: the engine model's own
            // admin flag is static and only matters for the auto-commit of leave proposals)
            if is_admin && self.n > 2 && self.r.chance(1, 7) {
                let j = (m + 1 + self.r.below(self.n as u64 - 1) as usize) % self.n;
                if w.clients[j].keys.public_key() != w.clients[m].keys.public_key() {
                    let grant = !w.is_admin_now(j);
                    let ev = self.next_ev; self.next_ev += 1; self.left = Some(99);
                    self.evs.insert(ev, EvMeta { kind: "commit", author: m, epoch_hint: self.client_epoch[m] });
                    return format!("PR COMMIT {m} {}{j} {ev} {}", if grant { "ad" } else { "un" }, self.ts());
                }
            }
            // an admin removes another user (all of its devices) through MDK::remove_members
            if is_admin && !self.removed && self.n > 3 && self.r.chance(1, 5) {
                let same = |a: usize, b: usize| a == b || (self.twin && a >= 2 && b >= 2);
                let cands: Vec<usize> = (1..self.n).filter(|&v| !same(v, m)).collect();
                if !cands.is_empty() {
                    let v = *self.r.pick(&cands);
                    let ev = self.next_ev; self.next_ev += 1; self.removed = true;
                    self.evs.insert(ev, EvMeta { kind: "commit", author: m, epoch_hint: self.client_epoch[m] });
                    return format!("PR COMMIT {m} rv{v} {ev} {}", self.ts());
                }
            }
            let kind = if is_admin && self.r.chance(1, 3) { "rn" } else { "su" };
            let ev = self.next_ev; self.next_ev += 1;
            self.evs.insert(ev, EvMeta { kind: "commit", author: m, epoch_hint: self.client_epoch[m] });
            return format!("PR COMMIT {m} {kind} {ev} {}", self.ts());
        }
        if k < 22 {
            if !pending.is_empty() {
                let (m, ev) = *self.r.pick(&pending);
                if self.immediate { return format!("PR MERGE {m} {ev}"); }
            }
        }
        // clear_pending_commit is for commits whose publication failed: only unpublished ones are cleared, and they are never delivered
        if k < 24 { if let Some((m, ev)) = pending.iter().find(|(_, e)| !self.delivered.contains(e)).cloned() { self.evs.remove(&ev); return format!("PR CLEAR {m}"); } }
        if k < 26 && self.left.is_none() && self.n > 3 && m != 0 && self.r.chance(1, 4) {
            let ev = self.next_ev; self.next_ev += 1; self.left = Some(m);
            self.evs.insert(ev, EvMeta { kind: "prop", author: m, epoch_hint: self.client_epoch[m] });
            return format!("PR LEAVE {m} {ev} {}", self.ts());
        }
        if k < 29 && self.adv < 3 && !w.is_admin_now(m) && w.pending_of(m).is_none() && self.r.chance(2, 3) {
            // a non-admin builds a member-removing commit directly with the MLS library
            let victim = (m + 1 + self.r.below(self.n as u64 - 1) as usize) % self.n;
            let ev = self.next_ev; self.next_ev += 1; self.adv += 1;
            self.evs.insert(ev, EvMeta { kind: "commit", author: m, epoch_hint: self.client_epoch[m] });
            let akind = if self.twin && victim >= 2 { *self.r.pick(&["ga", "ic"]) } else { *self.r.pick(&["rm", "rm", "ga", "gn", "ic", "ic", "pr"]) };
            // a standalone Remove proposal naming another member: at most one roster proposal per history (an auto-commit sweeps
            // whatever else is queued, which the model's auto-commit does not carry)
            let akind = if akind == "pr" && (self.twin || self.left.is_some() || self.removed) { "rm" } else { akind };
            if akind == "pr" { self.left = Some(99); self.evs.insert(ev, EvMeta { kind: "rmprop", author: m, epoch_hint: self.client_epoch[m] }); }
            return format!("PR ADV {m} {akind} {victim} {ev} {}", self.ts());
        }
        if w.reopen.is_some() && k >= 96 { return format!("PR RESTART {m}"); }
        if k < 30 {
            let ev = self.next_ev; self.next_ev += 1;
            self.evs.insert(ev, EvMeta { kind: "bad", author: 99, epoch_hint: 0 });
            return format!("PR BAD {ev} {} {}", self.ts(), self.r.below(5));
        }
        if k < 40 && !self.no_send.contains(&m) {
            let ev = self.next_ev; self.next_ev += 1; let mut msg = self.next_msg; self.next_msg += 1;
            // one message in ten carries a rumor dated well ahead of the receivers' clocks (rumor created_at = base + msg, base =
            // now - 5000 s: numbers from 6000 up are 1000 s and more in the future, and still ordered like their numbers)
            if self.r.chance(1, 10) { msg += 6000; }
            self.evs.insert(ev, EvMeta { kind: "app", author: m, epoch_hint: self.client_epoch[m] });
            // sometimes a (malicious) sender pre-sets the id of an existing message of another author on its rumor
            let victims: Vec<u64> = w.events.values().filter(|i| i.kind == "app" && i.author != m).filter_map(|i| i.msg.map(|x| x.0)).collect();
            if !victims.is_empty() && self.r.chance(1, 6) { let v = *self.r.pick(&victims); return format!("PR SEND {m} {ev} {} {msg} {v}", self.ts()); }
            // sometimes the inner rumor names another client (member or not) as its author
            if self.r.chance(1, 8) { let tot = w.clients.len() as u64; let k = (m as u64 + 1 + self.r.below(tot - 1)) % tot;
                if w.clients[k as usize].keys.public_key() != w.clients[m].keys.public_key() { return format!("PR SENDF {m} {ev} {} {msg} {k}", self.ts()); } }
            return format!("PR SEND {m} {ev} {} {msg}", self.ts());
        }
        // deliver (possibly a duplicate; possibly own echo)
        if self.evs.is_empty() { return format!("PR SEND {m} {} {} {}", { let e = self.next_ev; self.next_ev += 1; self.evs.insert(e, EvMeta { kind: "app", author: m, epoch_hint: self.client_epoch[m] }); e }, self.ts(), { let x = self.next_msg; self.next_msg += 1; x }); }
        let ids: Vec<u64> = self.evs.keys().cloned().collect();
        for _ in 0..8 {
            let ev = *self.r.pick(&ids);
            let meta = self.evs[&ev].clone();
            if self.regime_causal && meta.epoch_hint > self.client_epoch[m] { continue; }
            // (the builder of a raw Remove proposal holds no record of it: its own echo is not part of the modelled behaviour)
            if meta.kind == "rmprop" && meta.author == m { continue; }
            self.delivered.insert(ev);
            return format!("PR DELIVER {m} {ev}");
        }
        let own_raw = |e: &u64, m: usize| { let mt = &self.evs[e]; mt.kind == "rmprop" && mt.author == m };
        let (m, e0) = match ids.iter().cloned().find(|e| !own_raw(e, m)) { Some(e) => (m, e), None => ((m + 1) % self.n, ids[0]) };
        self.delivered.insert(e0);
        format!("PR DELIVER {m} {e0}")
    }
}

/// Ground truth about one history, gathered while it runs (never from the outcome being judged).
#[derive(Default)]
struct Truth {
    retention: u64,
    visited: Vec<BTreeSet<u64>>,          // state names each client has held
    ahead: Vec<(usize, u64)>,             // (client, event) offered before the client had visited the event's creation state
    beyond_retention: bool,               // some commit was first offered to a client more than `retention` epochs late
    merges: Vec<(usize, u64)>,
    late: BTreeSet<(usize, u64)>,
    too_late: BTreeSet<(usize, u64)>,
    refused_readable: BTreeSet<(usize, u64)>,   // application messages refused at their FIRST offer although the receiver was on the sender's branch, within the look-back
    retention_of: BTreeMap<usize, u64>,            // clients restarted with another retention
    commits_since_restart: BTreeMap<usize, u64>,
    offered: Vec<BTreeSet<u64>>,           // events already offered to each client
    rollback_then_refused: bool,
    stale_proposal: bool,
    sweeps: bool,
    took_effect: BTreeSet<(usize, u64)>,   // (client, event) pairs whose processing reported success
    restarted: BTreeSet<usize>,            // clients restarted so far
    late_competitor_after_restart: bool,   // a restarted client was offered a commit of an epoch it had already left
    own_echo_other_pending: bool,          // a client was offered one of its own commits while a DIFFERENT commit of its own was pending
    sendx: Vec<(usize, u64, u64)>,         // (malicious sender, its message number, victim message number)                          // a commit swept other members' pending proposals                  // a proposal was offered to a client that had already left its epoch
    leave_to_admin_with_pending: bool,          // application messages first offered when the receiver's epoch differed from the sender's
    refusal_changed: Vec<String>,
}

fn strip(fp: &str) -> String {
    // observable projection used by the frame oracles: everything except the result kind, the dedup record and the rollback counter
    fp.split(' ').filter(|t| !(t.starts_with("res=") || t.starts_with("dd=") || t.starts_with("rb="))).collect::<Vec<_>>().join(" ")
}

fn run_world<S: MdkStorageProvider, F: Fn(usize) -> S>(run: &mut Run, lines_in: Option<Vec<String>>, r: &mut Rng, nhist: u64, steps: u64, mk: F, backend: &str, reopen_factory: Option<Box<dyn Fn(u64) -> Box<dyn Fn(usize) -> S>>>, world_no: &std::cell::Cell<u64>) {
    let mut world: Option<World<S>> = None;
    let mut push = |run: &mut Run, class: &str, nontriv: bool, line: String, res: String| run.case(class, nontriv, line, res);
    if let Some(lines) = lines_in {
        for l in lines {
            let t: Vec<&str> = l.split(' ').collect();
            if t[1] == "RESET" { world_no.set(world_no.get() + 1); world = Some(World::new_full(t[2].parse().unwrap(), t[3].parse().unwrap(), t[4].parse().unwrap(), t.get(5) == Some(&"1"), t.get(6).and_then(|x| x.parse().ok()).unwrap_or(0), &mk));
                if let Some(f) = reopen_factory.as_ref() { let id = world_no.get(); world.as_mut().unwrap().reopen = Some(f(id.wrapping_sub(1000))); } push(run, "RESET", false, l.clone(), "RESET".into()); continue; }
            let (line, fp) = world.as_mut().unwrap().exec(&l);
            push(run, "replay", true, line, fp);
        }
        return;
    }
    // corpus first: hand-written minimal histories for every known finding class (and past failures)
    if let Ok(c) = std::fs::read_to_string("/verif/corpus/proto.txt") {
        let mut cur: Option<(World<S>, Vec<String>, Truth, BTreeSet<u64>)> = None;
        let mut flush = |run: &mut Run, cur: &mut Option<(World<S>, Vec<String>, Truth, BTreeSet<u64>)>| {
            if let Some((mut w, mut seq, mut truth, live)) = cur.take() { oracles(run, &mut w, &mut seq, backend, &live, &mut truth); }
        };
        for l in c.lines().filter(|l| !l.is_empty() && !l.starts_with('#')) {
            let t: Vec<&str> = l.split(' ').collect();
            if t[1] == "RESET" {
                flush(run, &mut cur);
                let (n, mask, ret): (usize, u64, usize) = (t[2].parse().unwrap(), t[3].parse().unwrap(), t[4].parse().unwrap());
                world_no.set(world_no.get() + 1);
                let spare: usize = t.get(6).and_then(|x| x.parse().ok()).unwrap_or(0);
                let w: World<S> = World::new_full(n, mask, ret, t.get(5) == Some(&"1"), spare, &mk);
                run.case("RESET", false, l.to_string(), "RESET".into());
                cur = Some((w, vec![l.to_string()], Truth { retention: ret as u64, visited: (0..n + spare).map(|i| if i < n { BTreeSet::from([0u64]) } else { BTreeSet::new() }).collect(), offered: vec![BTreeSet::new(); n + spare], ..Default::default() }, BTreeSet::new()));
                continue;
            }
            if let Some((w, seq, truth, live)) = cur.as_mut() {
                let (line, fp) = step(w, l, truth, run, backend, seq);
                if ["COMMIT", "SEND", "SENDF", "LEAVE", "BAD"].contains(&t[1]) { if let Ok(e) = t[if t[1] == "COMMIT" { 4 } else if t[1] == "BAD" { 2 } else { 3 }].parse::<u64>() { live.insert(e); } }
                seq.push(line.clone());
                run.case("corpus", true, line, fp);
            }
        }
        flush(run, &mut cur);
    }
    for h in 0..nhist {
        world_no.set(1000 + h);
        let removal_script = h % 6 == 2;
        let reuse_script = h % 6 == 0;
        let admin_rb_script = h % 6 == 3;
        let rmprop_script = h % 6 == 5;
        let n = if removal_script || reuse_script || rmprop_script { 4 } else { 3 + r.below(2) as usize };
        let spare = if reuse_script { 1 } else { 0 };
        let mut admin_mask = 1 | (r.below(1 << n) & !1) ;
        let retention = *r.pick(&[5usize, 5, 5, 5, 5, 2, 1, 0]);
        // one history in three of the four-member worlds has a two-device user (clients 2 and 3 share one identity)
        let twin = n == 4 && !reuse_script && !rmprop_script && (removal_script || r.chance(1, 3));
        if reuse_script { admin_mask &= !0b10; }
        if admin_rb_script { admin_mask &= !0b100; }
        if rmprop_script { admin_mask &= !0b100; }
        if removal_script && (h / 6) % 3 == 2 { admin_mask |= 0b10; }
        if twin { admin_mask = (admin_mask & !0b1000) | ((admin_mask & 0b100) << 1); }
        // delivery regime and merge style are drawn independently of the script residue (h % 6): a multiplicative hash of h
        let hmix = (h.wrapping_add(1)).wrapping_mul(2654435761) >> 11;
        let mut g = Gen { r: r.fork(), n, admin_mask, next_ev: 0, next_msg: 1, evs: BTreeMap::new(),
                          regime_causal: hmix % 3 != 2, immediate: (hmix / 3) % 4 == 3, client_epoch: vec![1; n], delivered: BTreeSet::new(), left: None, adv: 0, twin, removed: false, no_send: BTreeSet::new() };
        let mut w: World<S> = World::new_full(n, admin_mask, retention, twin, spare, &mk);
        if let Some(f) = reopen_factory.as_ref() { w.reopen = Some(f(h)); }
        let reset = format!("PR RESET {n} {admin_mask} {retention}{}", if spare > 0 { format!(" {} {spare}", twin as u8) } else if twin { " 1".to_string() } else { String::new() });
        let mut seq: Vec<String> = vec![reset.clone()];
        push(run, "RESET", false, reset, "RESET".into());
        let nsteps = steps / 2 + g.r.below(steps);
        let mut rolled = false;
        let mut truth = Truth { retention: retention as u64, visited: (0..n + spare).map(|i| if i < n { BTreeSet::from([0u64]) } else { BTreeSet::new() }).collect(), offered: vec![BTreeSet::new(); n + spare], ..Default::default() };
        // every fifth history starts with a scripted deep fork: member 0 applies a chain of d of its own commits (by echo, so
        // with snapshots) while member 1's application message and competing commit of the first epoch are still in flight;
        // d straddles the exporter-secret lookback and the snapshot retention (both 5 by default)
        let mut script: Vec<String> = vec![];
        if h % 6 == 4 {
            let d = 3 + g.r.below(4);
            let (e_app, e_comp) = (g.next_ev, g.next_ev + 1); g.next_ev += 2;
            let msg = g.next_msg; g.next_msg += 1;
            g.evs.insert(e_app, EvMeta { kind: "app", author: 1, epoch_hint: 1 });
            g.evs.insert(e_comp, EvMeta { kind: "commit", author: 1, epoch_hint: 1 });
            script.push(format!("PR SEND 1 {e_app} 100 {msg}"));
            script.push(format!("PR COMMIT 1 su {e_comp} {}", if g.r.chance(2, 3) { 99 } else { 104 }));
            for i in 0..d {
                let ev = g.next_ev; g.next_ev += 1;
                g.evs.insert(ev, EvMeta { kind: "commit", author: 0, epoch_hint: 1 + i });
                script.push(format!("PR COMMIT 0 su {ev} {}", 100 + g.r.below(4)));
                script.push(format!("PR DELIVER 0 {ev}"));
                g.delivered.insert(ev);
                if g.r.chance(1, 2) { script.push(format!("PR DELIVER 2 {ev}")); }
            }
            if g.r.chance(1, 2) { script.push(format!("PR DELIVER 0 {e_app}")); g.delivered.insert(e_app); }
            script.push(format!("PR DELIVER 0 {e_comp}")); g.delivered.insert(e_comp);
            script.reverse();
        }
        // every fifth history (residue 0) re-uses a leaf: member 1 sends a message whose inner rumor names the future joiner as its
        // author and withholds it, is removed, client 4 is added (it takes the freed leaf) and joins; then the withheld message
        // (and an honest one from the same epoch) are delivered
        if reuse_script {
            let base = g.next_ev; g.next_ev += 4;
            let (m1, m2) = (g.next_msg, g.next_msg + 1); g.next_msg += 2;
            g.evs.insert(base, EvMeta { kind: "app", author: 1, epoch_hint: 1 });
            g.evs.insert(base + 1, EvMeta { kind: "app", author: 1, epoch_hint: 1 });
            g.evs.insert(base + 2, EvMeta { kind: "commit", author: 0, epoch_hint: 1 });
            g.evs.insert(base + 3, EvMeta { kind: "commit", author: 0, epoch_hint: 2 });
            g.removed = true;
            script.push(format!("PR SENDF 1 {base} 100 {m1} 4"));
            script.push(format!("PR SEND 1 {} 100 {m2}", base + 1));
            script.push(format!("PR COMMIT 0 rv1 {} 100", base + 2));
            for c in [0usize, 2, 3, 1] { script.push(format!("PR DELIVER {c} {}", base + 2)); }
            script.push(format!("PR COMMIT 0 add4 {} 101", base + 3));
            for c in [0usize, 2, 3] { script.push(format!("PR DELIVER {c} {}", base + 3)); }
            script.push(format!("PR JOIN 4 {}", base + 3));
            for (c, e) in [(2usize, base), (2, base + 1), (3, base), (4, base), (4, base + 1)] { script.push(format!("PR DELIVER {c} {e}")); }
            for e in base..base + 4 { g.delivered.insert(e); }
            script.reverse();
        }
        // residue 3: an authorised admin-set change is applied by member 1 and then rolled back by an earlier-stamped commit that
        // is itself refused (member 2, not an admin, builds it with the MLS library): the stored record must follow the MLS state
        // back (admins included)
        if admin_rb_script && !twin {
            let (e1, e2) = (g.next_ev, g.next_ev + 1); g.next_ev += 2;
            g.evs.insert(e1, EvMeta { kind: "commit", author: 0, epoch_hint: 1 });
            g.evs.insert(e2, EvMeta { kind: "commit", author: 2, epoch_hint: 1 });
            g.left = Some(99); g.adv += 1;
            script.push(format!("PR COMMIT 0 {}1 {e1} 105", if admin_mask & 0b10 != 0 { "un" } else { "ad" }));
            script.push(format!("PR ADV 2 rm 1 {e2} 100"));
            script.push(format!("PR DELIVER 1 {e1}"));
            script.push(format!("PR DELIVER 1 {e2}"));
            script.push(format!("PR DELIVER 0 {e1}"));
            script.push(format!("PR DELIVER 2 {e1}"));
            g.delivered.insert(e1); g.delivered.insert(e2);
            script.reverse();
        }
        // persistent backends, residue 1: a client is restarted with a SMALLER snapshot retention after several commits; the very
        // next commit must bring its stored snapshots within the new limit (scripted back to back: nothing else touches the
        // snapshot manager in between)
        if h % 6 == 1 && w.reopen.is_some() && retention >= 4 {
            for i in 0..4u64 {
                let ev = g.next_ev; g.next_ev += 1;
                g.evs.insert(ev, EvMeta { kind: "commit", author: 0, epoch_hint: 1 + i });
                script.push(format!("PR COMMIT 0 su {ev} {}", 100 + g.r.below(4)));
                for c in 0..n { script.push(format!("PR DELIVER {c} {ev}")); }
                g.delivered.insert(ev);
            }
            let newret = 1 + g.r.below(2);
            script.push(format!("PR RESTART 1 {newret}"));
            let ev = g.next_ev; g.next_ev += 1;
            g.evs.insert(ev, EvMeta { kind: "commit", author: 0, epoch_hint: 5 });
            script.push(format!("PR COMMIT 0 su {ev} 101"));
            for c in [1usize, 0, 2] { script.push(format!("PR DELIVER {c} {ev}")); }
            g.delivered.insert(ev);
            script.reverse();
        }
        // residue 5: a blank leaf below the proposer.  The admin removes member 1 (leaf 1 goes blank), then member 2 - not an admin -
        // builds a Remove PROPOSAL naming member 3 with the MLS library.  Every receiver, admins included, only queues it: the one
        // automatic commit is of a member's OWN request to leave (leaf index of the sender = leaf index removed, blank leaves or not)
        if rmprop_script {
            let (e_rm, e_pr) = (g.next_ev, g.next_ev + 1); g.next_ev += 2;
            g.evs.insert(e_rm, EvMeta { kind: "commit", author: 0, epoch_hint: 1 });
            g.evs.insert(e_pr, EvMeta { kind: "rmprop", author: 2, epoch_hint: 2 });
            g.removed = true; g.left = Some(99); g.adv += 1;
            script.push(format!("PR COMMIT 0 rv1 {e_rm} 100"));
            for c in [0usize, 2, 3, 1] { script.push(format!("PR DELIVER {c} {e_rm}")); }
            script.push(format!("PR ADV 2 pr 3 {e_pr} 101"));
            for c in [0usize, 3] { script.push(format!("PR DELIVER {c} {e_pr}")); }
            g.delivered.insert(e_rm); g.delivered.insert(e_pr);
            script.reverse();
        }
        // every fifth history (another residue) removes a two-device user right away and then lets the remaining members talk
        if removal_script {
            let (e_rm, e_app) = (g.next_ev, g.next_ev + 1); g.next_ev += 2;
            let msg = g.next_msg; g.next_msg += 1;
            g.evs.insert(e_rm, EvMeta { kind: "commit", author: 0, epoch_hint: 1 });
            g.evs.insert(e_app, EvMeta { kind: "app", author: 0, epoch_hint: 2 });
            g.removed = true;
            let victim = 2 + g.r.below(2);
            if (h / 6) % 3 == 2 {
                // variant: the leave reaches BOTH admins (0 and 1), who each auto-commit it: a MIP-03 race between two commits that
                // carry the same proposal by reference.  The other device of the user applies the later-stamped one first and
                // must roll back - proposal store included - to apply the earlier-stamped one; so must admin 0 after its own echo
                let (a0, a1) = (1000 + e_rm * 8, 1000 + e_rm * 8 + 1);
                let other = 5 - victim;
                g.evs.insert(e_rm, EvMeta { kind: "prop", author: victim as usize, epoch_hint: 1 });
                g.left = Some(victim as usize);
                script.push(format!("PR LEAVE {victim} {e_rm} 100"));
                script.push(format!("PR DELIVER 0 {e_rm} 105"));
                script.push(format!("PR DELIVER 1 {e_rm} 100"));
                for e in [e_rm, a0, a1] { script.push(format!("PR DELIVER {other} {e}")); }
                for e in [a0, a1] { script.push(format!("PR DELIVER 0 {e}")); }
                script.push(format!("PR DELIVER 1 {a1}"));
                script.push(format!("PR DELIVER {victim} {a1}"));
            } else if (h / 6) % 3 == 1 {
                // variant: ONE device of the two-device user leaves; the admin auto-commits the proposal; only that device goes
                let aev = 1000 + e_rm * 8;
                g.evs.insert(e_rm, EvMeta { kind: "prop", author: victim as usize, epoch_hint: 1 });
                g.left = Some(victim as usize);
                script.push(format!("PR LEAVE {victim} {e_rm} 100"));
                script.push(format!("PR DELIVER 0 {e_rm}"));
                script.push(format!("PR DELIVER 0 {aev}"));
                for c in [1usize, 2, 3] { script.push(format!("PR DELIVER {c} {e_rm}")); script.push(format!("PR DELIVER {c} {aev}")); }
            } else {
                script.push(format!("PR COMMIT 0 rv{victim} {e_rm} 100"));
                for c in [0usize, 1, 2, 3] { script.push(format!("PR DELIVER {c} {e_rm}")); }
            }
            g.delivered.insert(e_rm);
            script.push(format!("PR SEND 0 {e_app} 101 {msg}"));
            for c in [3usize, 2, 1] { script.push(format!("PR DELIVER {c} {e_app}")); }
            g.delivered.insert(e_app);
            script.reverse();
        }
        for _ in 0..nsteps {
            let l = match script.pop() { Some(l) => l, None => g.next(&w) };
            let (line, fp) = step(&mut w, &l, &mut truth, run, backend, &seq);
            if fp == "skip" { continue; }
            // keep generator's view of epochs in step with reality (record epoch printed as ep=)
            if l.starts_with("PR JOIN") && g.n < w.clients.len() { g.n += 1; g.client_epoch.push(1); }
            // A rollback triggered by one of the client's OWN commits restores and re-merges its pending commit (known findings
            // own-echo / resurrected pending commit): the client re-enters the same MLS state with fresh ratchets, so whatever it
            // sends afterwards re-uses message generations (receivers answer SecretReuseError).  The engine model does not track
            // sender generations; such a client sends nothing more in generated histories (recorded in DESIGN.md section 10).
            if l.starts_with("PR DELIVER") && fp.contains(" rb=") {
                let t: Vec<&str> = l.split(' ').collect();
                if let (Ok(m), Ok(ev)) = (t[2].parse::<usize>(), t[3].parse::<u64>()) {
                    if w.events.get(&ev).map(|i| i.kind == "commit" && i.author == m).unwrap_or(false) && !fp.ends_with(" rb=0") { g.no_send.insert(m); }
                }
            }
            if !l.starts_with("PR BAD") { if let Some(m) = l.split(' ').nth(2).and_then(|x| x.parse::<usize>().ok()) { if m < g.client_epoch.len() { g.client_epoch[m] = w.mls_epoch(m); } } }
            if fp == "PANIC" { run.oracle_fail("C06", "", format!("[{backend}] panic in `{l}`"), seq.join(" || ") + " || " + &line); }
            if fp.contains(" rb=") && !fp.ends_with(" rb=0") { rolled = true; }
            let class = l.split(' ').nth(1).unwrap().to_string();
            seq.push(line.clone());
            push(run, &class, rolled, line, fp);
        }
        let live: BTreeSet<u64> = g.evs.keys().cloned().collect();
        oracles(run, &mut w, &mut seq, backend, &live, &mut truth);
    }
}

/// Execute one line, maintaining the ground truth and evaluating the per-step oracles (C06 refusal frame).
fn step<S: MdkStorageProvider>(w: &mut World<S>, l: &str, truth: &mut Truth, run: &mut Run, backend: &str, seq: &[String]) -> (String, String) {
    let t: Vec<&str> = l.split(' ').collect();
    let m: usize = t[2].parse().unwrap_or(0);
    let before = if t[1] == "DELIVER" { Some(strip(&w.fingerprint(m, "-", None, None))) } else { None };
    let pending_before = if t[1] == "DELIVER" { w.pending_of(m) } else { None };
    if t[1] == "DELIVER" {
        let ev: u64 = t[3].parse().unwrap();
        if let Some(info) = w.events.get(&ev) {
            if !truth.visited[m].contains(&info.state) || info.refs.iter().any(|p| !truth.offered[m].contains(p)) { truth.ahead.push((m, ev)); }
            if info.kind == "commit" && w.mls_epoch(m) > info.epoch + truth.retention { truth.beyond_retention = true; }
            if info.kind == "app" && w.mls_epoch(m) != info.epoch && !truth.offered[m].contains(&ev) { truth.late.insert((m, ev)); }
            // first offered more than the exporter-secret look-back (5 epochs) after it was sent: unreadable by design
            if info.kind == "app" && w.mls_epoch(m) > info.epoch + 5 && !truth.offered[m].contains(&ev) { truth.too_late.insert((m, ev)); }
            if info.kind == "prop" && w.mls_epoch(m) > info.epoch { truth.stale_proposal = true; }
            if info.kind == "commit" && truth.restarted.contains(&m) && w.mls_epoch(m) > info.epoch { truth.late_competitor_after_restart = true; }
            if info.kind == "commit" && info.author == m && info.epoch == w.mls_epoch(m) { if let Some(p) = w.pending_of(m) { if p != ev { truth.own_echo_other_pending = true; } } }
        }
    }
    // ground truth for C02: is this the first offer of an honest application message of another member, sent in a state that is
    // an ancestor (at most 5 commits back: exporter-secret look-back = OpenMLS max_past_epochs) of the receiver's current state?
    let readable_now: Option<u64> = if t[1] == "DELIVER" {
        let ev: u64 = t[3].parse().unwrap();
        w.events.get(&ev).cloned().and_then(|info| {
            if info.kind != "app" || info.ckind == "forged" || info.author == m || truth.offered[m].contains(&ev) { return None; }
            // (a later joiner never held the states before its join)
            if !truth.visited[m].contains(&info.state) { return None; }
            if truth.sendx.iter().any(|(_, a, b)| info.msg.map(|x| x.0 == *a || x.0 == *b).unwrap_or(false)) { return None; }
            let mut st: u64 = w.sigma_of(m, None).parse().ok()?;
            for _ in 0..=5 {
                if st == info.state { return Some(ev); }
                if st == 0 { return None; }
                st = w.events.get(&(st - 1))?.state;
            }
            None
        })
    } else { None };
    if t[1] == "MERGE" { truth.merges.push((m, t[3].parse().unwrap())); }
    if t[1] == "JOIN" { truth.visited[m].insert(t[3].parse::<u64>().unwrap() + 1); }
    if t[1] == "RESTART" && t.len() > 3 { truth.retention_of.insert(m, t[3].parse().unwrap()); truth.commits_since_restart.insert(m, 0); }
    let before_restart = if t[1] == "RESTART" { Some(strip(&w.fingerprint(m, "-", None, None))) } else { None };
    if t[1] == "SEND" && t.len() > 6 { truth.sendx.push((m, t[5].parse().unwrap(), t[6].parse().unwrap())); }
    let members_before = if t[1] == "DELIVER" { w.members_of(m) } else { vec![] };
    let name_before = if t[1] == "DELIVER" { w.clients[m].mdk.get_group(&w.gid).ok().flatten().map(|g| format!("{} admins={:?}", g.name, g.admin_pubkeys.iter().filter_map(|pk| w.clients.iter().position(|x| x.keys.public_key() == *pk)).collect::<BTreeSet<_>>())).unwrap_or_default() } else { String::new() };
    let rb_before = if t[1] == "DELIVER" { w.clients[m].cb.0.lock().unwrap().len() } else { 0 };
    let leave_to_pending_admin = t[1] == "DELIVER" && w.events.get(&t[3].parse().unwrap()).map(|i| i.kind == "prop").unwrap_or(false)
        && w.is_admin_now(m) && w.pending_of(m).is_some();
    // clear_pending_commit is for commits that were never published: an auto-commit that is cleared never reaches anybody
    // (generated commits are withdrawn by the generator itself; auto-commit events live only in the world's event table)
    let cleared_auto = if t[1] == "CLEAR" { w.pending_of(m).filter(|p| *p >= 1000) } else { None };
    let (line, fp) = w.exec(l);
    if let Some(p) = cleared_auto { if w.pending_of(m).is_none() { w.events.remove(&p); } }
    if t[1] == "DELIVER" { truth.offered[m].insert(t[3].parse().unwrap()); }
    if let Some(b) = before_restart { if fp != "skip" {
        truth.restarted.insert(m);
        // C11: closing and reopening changes nothing observable
        if strip(&fp) != b { run.oracle_fail("C11", "", format!("[{backend}] restart of member {m} changed its observable state: {b} -> {}", strip(&fp)), seq.join(" || ") + " || " + &line); }
    } }
    if t[1] == "DELIVER" && fp != "skip" {
        let ev: u64 = t[3].parse().unwrap();
        let info = w.events.get(&ev).cloned();
        let seqtxt = || seq.join(" || ") + " || " + &line;
        // C05: roster and group data change only as the effect of an authorised commit, and exactly as it says
        let members_after = w.members_of(m);
        let name_after = w.clients[m].mdk.get_group(&w.gid).ok().flatten().map(|g| format!("{} admins={:?}", g.name, g.admin_pubkeys.iter().filter_map(|pk| w.clients.iter().position(|x| x.keys.public_key() == *pk)).collect::<BTreeSet<_>>())).unwrap_or_default();
        let active_after = fp.contains(" act=1 ");
        if active_after && (members_after != members_before || name_after != name_before) {
            let rolled = w.clients[m].cb.0.lock().unwrap().len() > rb_before;
            let ok = match &info { Some(i) if i.kind == "commit" && i.auth => true, _ => false };
            if !ok && !rolled {
                // the known finding covers the AUTHOR applying its own sweeping commit (own commits are not re-validated); a
                // receiver that applies somebody else's unauthorised commit is not that
                let own = info.as_ref().map(|i| i.author == m).unwrap_or(false);
                run.oracle_fail("C05", if truth.sweeps && own { "operation-commits-others-pending-proposals" } else { "" }, format!("[{backend}] member {m}: roster/name changed ({:?},{name_before}) -> ({:?},{name_after}) by event {ev} which is not an authorised commit", members_before, members_after), seqtxt());
            }
        }
        // C05: the only automatic commit is of a member's OWN request to leave: a Remove proposal naming somebody else is queued
        if let Some(i) = &info { if i.ckind == "adv-pr" && (fp.starts_with("res=AutoCommit") || fp.contains(" pend=1 ") && !before.as_ref().map(|b| b.contains(" pend=1 ")).unwrap_or(false)) {
            run.oracle_fail("C05", "", format!("[{backend}] member {m} auto-committed event {ev}, member {}'s Remove proposal naming member {:?} - not a request to leave", i.author, i.removes), seqtxt());
        } }
        // C04: every stored message is attributed to its true author and keyed by the hash of its own fields
        if let Ok(msgs) = w.clients[m].mdk.get_messages(&w.gid, None) {
            for sm in msgs {
                let truth_author = w.events.values().find(|i| i.msg.map(|x| x.1) == Some(sm.id)).map(|i| i.author);
                let recomputed = { let mut e = sm.event.clone(); e.id = None; e.id() };
                // the id is the hash of the STORED columns too (author, timestamp, kind, tags, content), whatever the rumor's date
                let from_columns = nostr::EventId::new(&sm.pubkey, &sm.created_at, &sm.kind, &sm.tags, &sm.content);
                if sm.pubkey != w.clients[m].keys.public_key() && truth_author != Some(m) && from_columns != sm.id {
                    run.oracle_fail("C04", "", format!("[{backend}] member {m} stores message {} whose id is not the hash of its stored fields (created_at {} vs rumor {})", sm.id, sm.created_at.as_secs(), sm.event.created_at.as_secs()), seqtxt());
                }
                let own = sm.pubkey == w.clients[m].keys.public_key();
                // (a sender that forged the author of its own rumor keeps its own copy under that name: self-inflicted)
                // the id carried INSIDE the stored event is the message's id too (a sender-chosen id must not survive in it)
                if !own && truth_author != Some(m) && sm.event.id.is_some() && sm.event.id != Some(sm.id) {
                    run.oracle_fail("C04", "", format!("[{backend}] member {m} stores message {} whose embedded event carries another id ({:?})", sm.id, sm.event.id), seqtxt());
                }
                if !own && truth_author != Some(m) && (recomputed != sm.id || truth_author.map(|a| w.clients[a].keys.public_key() != sm.pubkey).unwrap_or(true)) {
                    run.oracle_fail("C04", "", format!("[{backend}] member {m} stores message {} whose id is not the hash of its fields or whose author is not its MLS-authenticated sender", sm.id), seqtxt());
                }
            }
        }
        // C05/C03: a removal commit applied here removes EVERY device of the removed identity
        if let Some(i) = &info { if let Some(v) = i.ckind.strip_prefix("rv").and_then(|v| v.parse::<usize>().ok()) { if fp.starts_with("res=Commit") && fp.contains(&format!(" st={} ", ev + 1)) && active_after {
            let vpk = w.clients[v].keys.public_key();
            if w.clients[m].mdk.get_members(&w.gid).map(|ms| ms.contains(&vpk)).unwrap_or(false) {
                for p in ["C05", "C03"] { run.oracle_fail(p, "", format!("[{backend}] member {m} applied the commit removing user {v} (event {ev}) but that identity is still a member of its group"), seqtxt()); }
            }
        } } }
        // C03: nothing sent after a user was removed is readable by any of that user's devices
        if let Some(i) = &info { if i.kind == "app" && fp.starts_with("res=App") && i.author != m {
            let mut st = i.state; let mut guard = 0;
            while st != 0 && guard < 200 { guard += 1;
                match w.events.get(&(st - 1)) { Some(ci) => {
                    if ci.ckind.starts_with("rv") && ci.removes.contains(&m) { run.oracle_fail("C03", "", format!("[{backend}] member {m} read message event {ev}, sent at state {} after commit {} removed it", i.state, st - 1), seqtxt()); break; }
                    st = ci.state; } None => break }
            }
        } }
        // C03: content is stored only by clients that were in the state the message was sent in
        if let Some(i) = &info { if i.kind == "app" && fp.starts_with("res=App") && i.author != m && !truth.visited[m].contains(&i.state) {
            run.oracle_fail("C03", "", format!("[{backend}] member {m} obtained message event {ev} sent at state {} which it was never in", i.state), seqtxt());
        } }
        // C20: never more snapshots than the configured retention
        if let Some(sn) = fp.split(" snaps=").nth(1).and_then(|x| x.split(' ').next()).and_then(|x| x.parse::<u64>().ok()) {
            let lim = truth.retention_of.get(&m).cloned().unwrap_or(truth.retention);
            // (right after a restart with a smaller retention the stored snapshots are still there: the bound is due once the
            //  snapshot manager has been used again, i.e. after the next applied commit)
            let due = !truth.retention_of.contains_key(&m) || truth.commits_since_restart.get(&m).cloned().unwrap_or(0) > 0;
            if sn > lim && due { run.oracle_fail("C20", "", format!("[{backend}] member {m} holds {sn} snapshots, retention is {lim}"), seqtxt()); }
        }
    }
    if (t[1] == "COMMIT") && line.contains(" removes=") && !line.contains(" removes=-") && !line.contains("refused=1") {
        truth.sweeps = true;
        let kind = t[3];
        run.oracle_fail("C05", "operation-commits-others-pending-proposals", format!("[{backend}] member {m}'s own {} operation also commits roster changes proposed by others ({})", if kind == "su" { "self-update" } else { "group-data" }, line.split(" | ").nth(1).unwrap_or("")), seq.join(" || ") + " || " + &line);
    }
    if let Some(st) = fp.split(" st=").nth(1).and_then(|x| x.split(' ').next()).and_then(|x| x.parse::<u64>().ok()) {
        truth.visited[m].insert(st);
        // an own commit reported as applied that left the client in ANOTHER commit's state: the echo merged a different
        // pending commit (possibly one that a rollback had just restored together with the snapshot)
        if t[1] == "DELIVER" && fp.starts_with("res=Commit") {
            let ev: u64 = t[3].parse().unwrap();
            let changed = before.as_ref().map(|b| strip(&fp) != *b).unwrap_or(false) || w.clients[m].cb.0.lock().unwrap().len() > rb_before;
            if changed && w.events.get(&ev).map(|i| i.kind == "commit" && i.author == m && st != ev + 1).unwrap_or(false) { truth.own_echo_other_pending = true; }
        }
    }
    // C03 / C08: a client whose own leaf is gone (it processed its removal) does not keep the group Active
    if fp.contains(" act=1 ") && m < w.clients.len() {
        if let Ok(Some(g)) = w.clients[m].mdk.load_mls_group(&w.gid) { if !g.is_active() {
            for p in ["C03", "C08"] { run.oracle_fail(p, "", format!("[{backend}] after `{l}` member {m}'s MLS group is no longer active (its leaf was removed) but its stored group is still Active"), seq.join(" || ") + " || " + &line); }
        } }
    }
    if t[1] == "DELIVER" && fp.starts_with("res=Commit") { *truth.commits_since_restart.entry(m).or_insert(0) += 1; }
    // C08: ... and the admin set of the MLS group data
    if fp.contains(" act=1 ") && m < w.clients.len() {
        if let (Ok(Some(rec)), Ok(Some(g))) = (w.clients[m].mdk.get_group(&w.gid), w.clients[m].mdk.load_mls_group(&w.gid)) {
            if let Ok(d) = mdk_core::extension::NostrGroupDataExtension::from_group(&g) { if g.is_active() && rec.admin_pubkeys != d.admins {
                run.oracle_fail("C08", "", format!("[{backend}] after `{l}` member {m}'s stored admin set differs from the admin set of its MLS group data"), seq.join(" || ") + " || " + &line);
            }
            // ... and every other field of the group data: name, description, Nostr group id, image fields, relay list
            if g.is_active() {
                let stored_relays: BTreeSet<String> = w.clients[m].mdk.get_relays(&w.gid).map(|v| v.iter().map(|r| r.to_string()).collect()).unwrap_or_default();
                let mls_relays: BTreeSet<String> = d.relays.iter().map(|r| r.to_string()).collect();
                let diff = if stored_relays != mls_relays { Some(format!("relays {stored_relays:?} vs {mls_relays:?}")) }
                    else if rec.name != d.name { Some(format!("name {} vs {}", rec.name, d.name)) }
                    else if rec.description != d.description { Some("description".to_string()) }
                    else if rec.nostr_group_id != d.nostr_group_id { Some("Nostr group id".to_string()) }
                    else if rec.image_hash != d.image_hash || rec.image_key.as_ref().map(|k| **k) != d.image_key.as_ref().map(|k| *k) || rec.image_nonce.as_ref().map(|k| **k) != d.image_nonce.as_ref().map(|k| *k) { Some("image fields".to_string()) } else { None };
                if let Some(df) = diff { run.oracle_fail("C08", "", format!("[{backend}] after `{l}` member {m}'s stored group record differs from the group data of its MLS state: {df}"), seq.join(" || ") + " || " + &line); }
            } }
        }
    }
    // C08: after every operation the stored record of an active group shows the epoch of the MLS state
    if fp.contains(" act=1 ") {
        let get = |k: &str| fp.split(k).nth(1).and_then(|x| x.split(' ').next()).and_then(|x| x.parse::<u64>().ok());
        if let (Some(ep), Some(mls)) = (get(" ep="), get(" mls=")) { if ep != mls {
            run.oracle_fail("C08", "", format!("[{backend}] after `{l}` member {m}'s stored group record says epoch {ep} while its MLS state is at epoch {mls}"), seq.join(" || ") + " || " + &line);
        } }
    }
    // C07: re-delivering an event that has already taken effect here changes nothing observable
    if let Some(b) = &before {
        let ev: u64 = t[3].parse().unwrap();
        if truth.took_effect.contains(&(m, ev)) && fp != "skip" && strip(&fp) != *b {
            let cls = if pending_before == Some(ev) { "rollback-resurrects-superseded-pending-commit" } else if truth.own_echo_other_pending { "own-echo-merges-a-different-pending-commit" } else { "" };
            run.oracle_fail("C07", cls, format!("[{backend}] re-delivering event {ev}, which had already taken effect at member {m}, changed its state: {b} -> {}", strip(&fp)), seq.join(" || ") + " || " + &line);
        }
        // "taken effect": stored / queued / applied HERE (a Commit answer that merely acknowledges one of the client's own
        // commits it never applied - cleared, or merged as something else - is not an effect of that event)
        let applied_here = !fp.starts_with("res=Commit") || fp.contains(&format!(" st={} ", ev + 1));
        if applied_here && ["res=App", "res=Commit", "res=PendingProposal", "res=AutoCommit"].iter().any(|k| fp.starts_with(k)) { truth.took_effect.insert((m, ev)); }
    }
    if let Some(ev) = readable_now { if fp.contains(" act=1 ") && ["res=Err", "res=Unprocessable", "res=PreviouslyFailed"].iter().any(|k| fp.starts_with(k)) { truth.refused_readable.insert((m, ev)); } }
    // C06: a refused event has no effect on the observable projection
    if let Some(b) = before {
        let refused = ["res=Err", "res=Unprocessable", "res=PreviouslyFailed", "res=IgnoredProposal"].iter().any(|k| fp.starts_with(k));
        if refused && strip(&fp) != b {
            let rolled = w.clients[m].cb.0.lock().unwrap().len() > rb_before;
            // the known finding is about a candidate that CANNOT be accepted (unauthorised, identity-changing, built on another
            // branch, or committing a proposal this client never held).  An authorised commit created in exactly the state the
            // client was rolled back to, all of whose by-reference proposals had taken effect here, must be applied after the
            // rollback: refusing it is a different failure (e.g. a snapshot that did not restore everything)
            let ev: u64 = t[3].parse().unwrap();
            let here: Option<u64> = w.sigma_of(m, None).parse().ok();
            let acceptable = w.events.get(&ev).map(|i| i.kind == "commit" && i.author != m && i.auth && i.ckind != "adv-ic" && Some(i.state) == here
                && i.refs.iter().all(|r| truth.took_effect.contains(&(m, *r)))).unwrap_or(false);
            let cls = if rolled && !acceptable { "rolled-back-then-refused" } else { "" };
            if rolled && !acceptable { truth.rollback_then_refused = true; }
            if leave_to_pending_admin { truth.leave_to_admin_with_pending = true; }
            run.oracle_fail("C06", cls, format!("[{backend}] refused event changed the client's state: `{l}` -> {fp}; before: {b}"), seq.join(" || ") + " || " + &line);
        }
    }
    (line, fp)
}

/// The state MIP-03 selects: from the join state follow, at every epoch, the authorised child commit with the
/// earliest wrapper timestamp, ties broken by the smallest event id (independent reference, ~15 lines).
fn canonical<S: MdkStorageProvider>(w: &World<S>, live: &BTreeSet<u64>) -> Vec<u64> {
    let mut chain = vec![0u64];
    loop {
        let cur = *chain.last().unwrap();
        let best = w.events.iter()
            .filter(|(e, i)| i.kind == "commit" && i.auth && i.state == cur && (live.contains(e) || **e >= 1000))
            .min_by_key(|(_, i)| (i.ts, mdk_verif_harness::world::id_order_key(&i.event.id)));
        match best { Some((e, _)) => chain.push(e + 1), None => return chain }
    }
}

/// After the random part: offer every event to every member again until nothing changes (C01's premise), then
/// evaluate the property oracles on the implementation.  Lines executed here are part of the correspondence too.
fn oracles<S: MdkStorageProvider>(run: &mut Run, w: &mut World<S>, seq: &mut Vec<String>, backend: &str, live: &BTreeSet<u64>, truth: &mut Truth) {
    let n = w.clients.len();
    let evs: Vec<u64> = w.events.keys().cloned().filter(|e| live.contains(e) || *e >= 1000).collect();
    let mut last: Vec<String> = (0..n).map(|c| w.fingerprint(c, "-", None, None)).collect();
    for _pass in 0..6 {
        // events named in rollback notifications are re-offered as part of "everything again"
        let evs_now: Vec<u64> = w.events.keys().cloned().filter(|e| live.contains(e) || *e >= 1000).collect();
        for &ev in &evs_now {
            for c in 0..n {
                let l = format!("PR DELIVER {c} {ev}");
                let (line, fp) = step(w, &l, truth, run, backend, seq);
                seq.push(line.clone());
                run.case("DELIVER-quiesce", true, line, fp);
            }
        }
        let now: Vec<String> = (0..n).map(|c| w.fingerprint(c, "-", None, None)).collect();
        if now == last { break; }
        last = now;
    }
    let _ = evs;
    let evs: Vec<u64> = w.events.keys().cloned().filter(|e| live.contains(e) || *e >= 1000).collect();
    // C07: one more re-delivery of everything changes nothing observable
    let before: Vec<String> = (0..n).map(|c| strip(&w.fingerprint(c, "-", None, None))).collect();
    for &ev in &evs { for c in 0..n {
        let l = format!("PR DELIVER {c} {ev}");
        let (line, fp) = w.exec(&l);
        seq.push(line.clone());
        run.case("DELIVER-again", true, line, fp);
        let after = strip(&w.fingerprint(c, "-", None, None));
        if after != before[c] {
            run.oracle_fail("C07", "", format!("[{backend}] re-delivering event {ev} to member {c} after quiescence changed its state: {} -> {}", before[c], after), seq.join(" || "));
            return;
        }
    } }
    // ---- ground-truth classification of the history (premises of the convergence theorem)
    let chain = canonical(w, live);
    let on_chain = |st: u64| chain.contains(&st);
    let fork_merge = truth.merges.iter().any(|(_, ev)| { let p = w.events.get(ev).map(|i| i.state); w.events.iter().any(|(e2, i2)| e2 != ev && i2.kind == "commit" && Some(i2.state) == p && (live.contains(e2) || *e2 >= 1000)) });
    let ahead_on_chain = truth.ahead.iter().any(|(_, ev)| w.events.get(ev).map(|i| on_chain(i.state)).unwrap_or(false));
    let class = if truth.late_competitor_after_restart { "better-commit-not-adopted-after-restart" } else if truth.own_echo_other_pending { "own-echo-merges-a-different-pending-commit" } else if truth.sweeps { "operation-commits-others-pending-proposals" } else if fork_merge { "merge-pending-commit-takes-no-snapshot" } else if truth.rollback_then_refused { "rolled-back-then-refused" } else if ahead_on_chain { "event-offered-ahead-of-its-predecessor-never-retried" } else { "" };
    let in_scope = !truth.beyond_retention;
    run.count(if !in_scope { "history:fork-deeper-than-retention" } else if class.is_empty() { "history:in-proved-regime" } else { "history:known-class" });
    // C01: all remaining (active) members hold the state MIP-03 selects
    let target = *chain.last().unwrap();
    let states: Vec<u64> = (0..n).map(|c| w.sigma_of(c, None).parse::<u64>().unwrap_or(9999)).collect();
    let active: Vec<usize> = (0..n).filter(|&c| before[c].contains(" act=1 ")).collect();
    if in_scope && active.iter().any(|&c| states[c] != target) {
        let detail: Vec<String> = (0..n).map(|c| format!("m{c}:st={} ep={}", states[c], w.mls_epoch(c))).collect();
        run.oracle_fail("C01", class, format!("[{backend}] after every event was re-offered until nothing changed, members are not all at the MIP-03-selected state {target} (chain {:?}): {}", chain, detail.join(" ")), seq.join(" || "));
        // (a run with restarts that fails to converge for a reason that has nothing to do with the restart - another known C01
        //  class - is reported under C01 only)
        if !truth.restarted.is_empty() && (truth.late_competitor_after_restart || class.is_empty()) {
            run.oracle_fail("C11", if truth.late_competitor_after_restart { "better-commit-not-adopted-after-restart" } else { class }, format!("[{backend}] a run with restarts of {:?} did not converge to the MIP-03-selected state {target}: {}", truth.restarted, detail.join(" ")), seq.join(" || "));
        }
    }
    // C02: messages created on the winning branch are stored exactly once and valid everywhere; losing-branch messages are not valid
    if in_scope {
        // (messages whose inner rumor names a false author are refused by design: C04)
        for (ev, info) in w.events.clone().iter().filter(|(e, i)| i.kind == "app" && i.ckind != "forged" && live.contains(e)) {
            let (msgno, _) = info.msg.unwrap();
            for &c in &active {
                if states[c] != target { continue; }
                // a later joiner never held the states before its join: what was sent there is not for it (C03)
                if !truth.visited[c].contains(&0) && !truth.visited[c].contains(&info.state) { continue; }
                // a sender that pre-set another message's id on its rumor files its own copy under that id: self-inflicted
                if truth.sendx.iter().any(|(sm, a, b)| *sm == c && (*a == msgno || *b == msgno)) { continue; }
                let fp = &before[c];
                let entry = fp.split(" msgs=").nth(1).unwrap_or("").split(',').find(|x| x.split(':').next() == Some(&msgno.to_string())).map(|x| x.to_string());
                let valid = entry.as_ref().map(|e| { let st = e.split(':').nth(1).unwrap_or(""); st == "1" || (st == "0" && false) }).unwrap_or(false);
                if on_chain(info.state) && !valid {
                    let late = truth.ahead.iter().any(|(cc, e)| *cc == c && e == ev);
                    if truth.too_late.contains(&(c, *ev)) { continue; }
                    // the known finding files a late message under the receiver's epoch (so a rollback invalidates it): the message
                    // is THERE but invalid; a late message that is missing altogether is not that finding
                    // refused at its first offer although the receiver was on the sender's branch and within the look-back: no
                    // history-level class explains that
                    let cls = if truth.refused_readable.contains(&(c, *ev)) && entry.is_none() { "" } else if !class.is_empty() { class } else if late { "event-offered-ahead-of-its-predecessor-never-retried" } else if truth.late.contains(&(c, *ev)) && entry.is_some() { "message-filed-under-receivers-epoch" } else { "" };
                    run.oracle_fail("C02", cls, format!("[{backend}] winning-branch message {msgno} (event {ev}, sent at state {}) is {} at member {c}", info.state, entry.clone().unwrap_or("missing".into())), seq.join(" || "));
                }
                if !on_chain(info.state) && entry.as_ref().map(|e| { let st = e.split(':').nth(1).unwrap_or(""); st == "1" || st == "0" }).unwrap_or(false) {
                    run.oracle_fail("C02", if class.is_empty() { "losing-branch-message-left-valid" } else { class }, format!("[{backend}] losing-branch message {msgno} (sent at state {}) is still marked valid ({}) at converged member {c}", info.state, entry.unwrap()), seq.join(" || "));
                }
            }
        }
    }
    // C08: stored record mirrors the MLS state
    for c in 0..n {
        let f = &before[c];
        if !f.contains(" act=1 ") { continue; }
        let ep = f.split("ep=").nth(1).and_then(|x| x.split(' ').next()).unwrap_or("");
        let mls = f.split(" mls=").nth(1).and_then(|x| x.split(' ').next()).unwrap_or("");
        if ep != mls { run.oracle_fail("C08", "", format!("[{backend}] member {c}: record epoch {ep} differs from MLS epoch {mls}"), seq.join(" || ")); }
    }
}

fn main() {
    if std::env::var("VERIF_SHOW_ERR").is_ok() { mdk_verif_harness::logcap::install(); }
    if std::env::var("VERIF_SHOW_PANIC").is_err() { std::panic::set_hook(Box::new(|_| {})); }
    let backend = arg("--backend").unwrap_or("mem".into());
    let out = arg("--out").unwrap_or(format!("/verif/.cache/run/proto-{backend}"));
    let mut run = Run::new(&out, "random histories of 3-4 real MDK clients, optionally a two-device user and one client that joins later through a welcome (self-update / rename / admin-grant / admin-revoke / remove_members / add_members commits incl. concurrent ones on one epoch, application messages incl. pre-set ids, forged rumor authors and future-dated rumors, leave proposals, own-commit echo vs immediate merge, clear, hostile wrapper events, commits built with OpenMLS directly by non-admins (removal, self-promotion, rename, identity change), duplicates, epoch-causal and unrestricted delivery, restarts on persistent storage incl. with a smaller retention, retention 0/1/2/5, few distinct wrapper timestamps to force ties); every fifth history starts with a scripted prefix (fork of depth 3-6, removal or leave of a two-device user, leaf re-use with a withheld forged message, admin change rolled back by a refused commit, restart with smaller retention); then every event is re-offered to every member until nothing changes; every step's public-API fingerprint is compared with the extracted engine model; non-trivial = step executed after the first rollback of its history, or in the quiescence phase");
    std::fs::create_dir_all("/verif/.cache/tmp").unwrap();
    let mut r = Rng::from_env();
    let lines = arg("--cases").map(|f| std::fs::read_to_string(f).unwrap().lines().filter(|l| !l.is_empty() && !l.starts_with('#')).map(|l| l.to_string()).collect::<Vec<_>>());
    let nhist: u64 = arg("--hist").and_then(|s| s.parse().ok()).unwrap_or(20);
    let steps: u64 = arg("--steps").and_then(|s| s.parse().ok()).unwrap_or(40);
    if backend == "mem" {
        let wn = std::cell::Cell::new(0u64);
        run_world(&mut run, lines, &mut r, nhist, steps, |_| MdkMemoryStorage::new(), "memory", None, &wn);
    } else {
        let dir = tempfile::Builder::new().prefix("proto").tempdir_in("/verif/.cache/tmp").unwrap();
        let base = dir.path().to_path_buf();
        let wn = std::rc::Rc::new(std::cell::Cell::new(0u64));
        let (b1, w1) = (base.clone(), wn.clone());
        let mk = move |i: usize| MdkSqliteStorage::new_unencrypted(b1.join(format!("w{}_c{}.db", w1.get(), i))).unwrap();
        let b2 = base.clone();
        let factory: Box<dyn Fn(u64) -> Box<dyn Fn(usize) -> MdkSqliteStorage>> = Box::new(move |h: u64| { let b = b2.clone(); Box::new(move |i: usize| MdkSqliteStorage::new_unencrypted(b.join(format!("w{}_c{}.db", h.wrapping_add(1000), i))).unwrap()) });
        run_world(&mut run, lines, &mut r, nhist, steps, mk, "sqlite", Some(factory), &wn);
    }
    run.finish();
    println!("proto_diff[{backend}]: {} lines, {} oracle failures", run.cases.len(), run.oracle.len());
}
