//! One deterministic PRNG (splitmix64) – every random choice in a run derives from VERIF_SEED.
#[derive(Clone)]
pub struct Rng(pub u64);
impl Rng {
    pub fn new(seed: u64) -> Self { Rng(seed ^ 0x9E3779B97F4A7C15) }
    pub fn from_env() -> Self {
        let s = std::env::var("VERIF_SEED").ok().and_then(|s| s.parse::<u64>().ok()).unwrap_or(1);
        Self::new(s)
    }
    pub fn next(&mut self) -> u64 {
        self.0 = self.0.wrapping_add(0x9E3779B97F4A7C15);
        let mut z = self.0;
        z = (z ^ (z >> 30)).wrapping_mul(0xBF58476D1CE4E5B9);
        z = (z ^ (z >> 27)).wrapping_mul(0x94D049BB133111EB);
        z ^ (z >> 31)
    }
    pub fn below(&mut self, n: u64) -> u64 { if n == 0 { 0 } else { self.next() % n } }
    pub fn range(&mut self, lo: u64, hi: u64) -> u64 { lo + self.below(hi - lo + 1) }
    pub fn chance(&mut self, num: u64, den: u64) -> bool { self.below(den) < num }
    pub fn pick<'a, T>(&mut self, v: &'a [T]) -> &'a T { &v[self.below(v.len() as u64) as usize] }
    pub fn bytes(&mut self, n: usize) -> Vec<u8> { (0..n).map(|_| self.next() as u8).collect() }
    pub fn shuffle<T>(&mut self, v: &mut [T]) { for i in (1..v.len()).rev() { let j = self.below(i as u64 + 1) as usize; v.swap(i, j); } }
    pub fn fork(&mut self) -> Rng { Rng::new(self.next()) }
}
