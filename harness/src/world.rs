//! A small "world" of real MDK clients driven by case lines (`PR ...`), shared by the protocol harnesses.
//!
//! Case lines (one per step; the extracted Coq engine model evaluates the same lines):
//!   PR RESET <n_members> <admin_mask> <retention>          fresh world: member 0 creates the group, the others join
//!   PR COMMIT <member> <kind> <ev> <ts>                    member creates a commit (kind su = self_update, rn = rename)
//!   PR MERGE <member> <ev>                                 member merges its pending commit <ev> right away
//!   PR CLEAR <member>                                      member clears its pending commit
//!   PR SEND <member> <ev> <ts> <msg>                       member creates application message number <msg>
//!   PR LEAVE <member> <ev> <ts>                            member creates a leave proposal
//!   PR DELIVER <member> <ev>                               member processes event <ev>
//! Every line is followed (after execution) by a facts suffix ` | k=v ...` that the harness appends from ground truth
//! (who created the event, at which state/epoch, id order key), so the model never reads the implementation's reactions.
use std::collections::BTreeMap;
use std::panic::{AssertUnwindSafe, catch_unwind};
use std::sync::{Arc, Mutex};

use mdk_core::callback::{MdkCallback, RollbackInfo};
use mdk_core::groups::{NostrGroupConfigData, NostrGroupDataUpdate};
use mdk_core::messages::MessageProcessingResult;
use mdk_core::{GroupId, MDK, MdkConfig};
use mdk_storage_traits::MdkStorageProvider;
use mdk_storage_traits::groups::Pagination;
use mdk_storage_traits::messages::MessageStorage;
use mdk_storage_traits::messages::types::{MessageState, ProcessedMessageState};
use nostr::{Event, EventBuilder, EventId, Keys, Kind, RelayUrl, UnsignedEvent};
use openmls_traits::OpenMlsProvider;

#[derive(Debug, Default)]
pub struct Cb(pub Mutex<Vec<RollbackInfo>>);
impl MdkCallback for Cb {
    fn on_rollback(&self, info: &RollbackInfo) { self.0.lock().unwrap().push(info.clone()); }
}

pub struct Client<S: MdkStorageProvider> {
    pub mdk: MDK<S>,
    pub keys: Keys,
    pub cb: Arc<Cb>,
}

#[derive(Clone)]
pub struct EvInfo {
    pub event: Event,
    pub kind: String,        // commit | app | prop
    pub author: usize,
    pub state: u64,          // sigma name of the creator's state when the event was created
    pub epoch: u64,          // creator's MLS epoch then
    pub ts: u64,
    pub msg: Option<(u64, EventId)>,
    pub ckind: String,
    pub refs: Vec<u64>,     // commit: proposal events it commits by reference
    pub auth: bool,         // commit: authorised (admin author, or pure self-update)
    pub removes: Vec<usize>,
}

pub struct World<S: MdkStorageProvider> {
    pub clients: Vec<Client<S>>,
    pub gid: GroupId,
    pub events: BTreeMap<u64, EvInfo>,
    pub sigma: BTreeMap<String, u64>,   // authenticator hex -> state name (0 = join state, else 1 + commit event number)
    pub msg_ids: BTreeMap<EventId, u64>,
    pub admin_mask: u64,
    pub base_ts: u64,
    pub leave_ev: BTreeMap<usize, u64>,   // member -> its leave proposal event
    pub retention: usize,
    pub reopen: Option<Box<dyn Fn(usize) -> S>>,   // persistent backends: reopen client i's database file
    pub joined: Vec<bool>,                          // clients that are (or were) members; spare clients join later through a welcome
    pub welcomes: BTreeMap<u64, Vec<UnsignedEvent>>, // add-commit event -> welcome rumors it produced
    pub ret_of: BTreeMap<usize, usize>,              // retention a client was last (re)started with, when it differs from the world's
    pub rm_prop_ev: BTreeMap<usize, u64>,            // victim -> the Remove proposal naming it that some member built with the MLS library
}

pub fn id_order_key(id: &EventId) -> u64 {
    let b = id.as_bytes();
    u64::from_be_bytes([0, 0, b[0], b[1], b[2], b[3], b[4], b[5]])
}

fn kp<S: MdkStorageProvider>(mdk: &MDK<S>, keys: &Keys) -> Event {
    let relays = vec![RelayUrl::parse("wss://test.relay").unwrap()];
    let (c, tags, _) = mdk.create_key_package_for_event(&keys.public_key(), relays).unwrap();
    EventBuilder::new(Kind::MlsKeyPackage, c).tags(tags).sign_with_keys(keys).unwrap()
}

pub fn result_kind(r: &Result<MessageProcessingResult, mdk_core::Error>) -> &'static str {
    match r {
        Ok(MessageProcessingResult::ApplicationMessage(_)) => "App",
        Ok(MessageProcessingResult::Proposal(_)) => "AutoCommit",
        Ok(MessageProcessingResult::PendingProposal { .. }) => "PendingProposal",
        Ok(MessageProcessingResult::IgnoredProposal { .. }) => "IgnoredProposal",
        Ok(MessageProcessingResult::ExternalJoinProposal { .. }) => "ExtJoin",
        Ok(MessageProcessingResult::Commit { .. }) => "Commit",
        Ok(MessageProcessingResult::Unprocessable { .. }) => "Unprocessable",
        Ok(MessageProcessingResult::PreviouslyFailed) => "PreviouslyFailed",
        Err(_) => "Err",
    }
}

impl<S: MdkStorageProvider> World<S> {
    pub fn new<F: Fn(usize) -> S>(n: usize, admin_mask: u64, retention: usize, mk: F) -> Self { Self::new_twin(n, admin_mask, retention, false, mk) }
    /// `twin`: the last two clients are two devices of ONE Nostr identity (same keys, separate storage, two leaves).
    pub fn new_twin<F: Fn(usize) -> S>(n: usize, admin_mask: u64, retention: usize, twin: bool, mk: F) -> Self { Self::new_full(n, admin_mask, retention, twin, 0, mk) }
    /// `spare`: further clients (indices n..) that are NOT members at the start and may join later through a welcome.
    pub fn new_full<F: Fn(usize) -> S>(n: usize, admin_mask: u64, retention: usize, twin: bool, spare: usize, mk: F) -> Self {
        let mut clients = vec![];
        for i in 0..n + spare {
            let cb = Arc::new(Cb::default());
            let cfg = MdkConfig { epoch_snapshot_retention: retention, ..Default::default() };
            let mdk = MDK::builder(mk(i)).with_config(cfg).with_callback(cb.clone()).build();
            let keys = if twin && i == n - 1 && n >= 3 { { let c: &Client<S> = &clients[n - 2]; c.keys.clone() } } else { Keys::generate() };
            clients.push(Client { mdk, keys, cb });
        }
        let mut admins = vec![clients[0].keys.public_key()];
        for i in 1..n { if admin_mask & (1 << i) != 0 { admins.push(clients[i].keys.public_key()); } }
        let kps: Vec<Event> = (1..n).map(|i| kp(&clients[i].mdk, &clients[i].keys)).collect();
        let cfg = NostrGroupConfigData::new("g0".into(), "d".into(), None, None, None, vec![RelayUrl::parse("wss://test.relay").unwrap(), RelayUrl::parse("wss://r2.relay").unwrap()], admins);
        let r = clients[0].mdk.create_group(&clients[0].keys.public_key(), kps, cfg).unwrap();
        let gid = r.group.mls_group_id.clone();
        for i in 1..n {
            let w = clients[i].mdk.process_welcome(&EventId::all_zeros(), &r.welcome_rumors[i - 1]).unwrap();
            clients[i].mdk.accept_welcome(&w).unwrap();
        }
        let now = nostr::Timestamp::now().as_secs();
        let mut w = World { clients, gid, events: BTreeMap::new(), sigma: BTreeMap::new(), msg_ids: BTreeMap::new(), admin_mask: admin_mask | 1, base_ts: now - 5000, leave_ev: BTreeMap::new(), retention, reopen: None, joined: (0..n + spare).map(|i| i < n).collect(), welcomes: BTreeMap::new(), ret_of: BTreeMap::new(), rm_prop_ev: BTreeMap::new() };
        let a = w.auth(0);
        w.sigma.insert(a, 0);
        w
    }

    pub fn auth(&self, c: usize) -> String {
        match self.clients[c].mdk.load_mls_group(&self.gid) {
            Ok(Some(g)) => hex::encode(g.epoch_authenticator().as_slice()),
            _ => "none".into(),
        }
    }
    /// Is client c an admin in ITS current state (ground truth from its own MLS group data)?
    pub fn is_admin_now(&self, c: usize) -> bool {
        let Some(g) = self.clients[c].mdk.load_mls_group(&self.gid).ok().flatten() else { return false };
        mdk_core::extension::NostrGroupDataExtension::from_group(&g).map(|d| d.admins.contains(&self.clients[c].keys.public_key())).unwrap_or(false)
    }
    /// Event number of the commit currently pending at client c (identified by the epoch authenticator its staged
    /// commit will produce, registered when the commit was created).
    pub fn pending_of(&self, c: usize) -> Option<u64> {
        let g = self.clients[c].mdk.load_mls_group(&self.gid).ok().flatten()?;
        let a = hex::encode(g.pending_commit()?.epoch_authenticator()?.as_slice());
        self.sigma.get(&a).map(|n| n - 1)
    }
    fn register_pending(&mut self, c: usize, ev: u64) {
        if let Some(g) = self.clients[c].mdk.load_mls_group(&self.gid).ok().flatten() {
            if let Some(a) = g.pending_commit().and_then(|p| p.epoch_authenticator()) { self.sigma.insert(hex::encode(a.as_slice()), ev + 1); }
        }
    }
    pub fn mls_epoch(&self, c: usize) -> u64 { self.clients[c].mdk.load_mls_group(&self.gid).ok().flatten().map(|g| g.epoch().as_u64()).unwrap_or(0) }
    /// State name of client c; an authenticator never seen before is named after `fresh` (the commit just applied).
    pub fn sigma_of(&mut self, c: usize, fresh: Option<u64>) -> String {
        let a = self.auth(c);
        if let Some(n) = self.sigma.get(&a) { return n.to_string(); }
        match fresh { Some(ev) => { self.sigma.insert(a, ev + 1); (ev + 1).to_string() } None => "?".into() }
    }

    /// Public-API fingerprint of one client (what the model must predict).
    pub fn fingerprint(&mut self, c: usize, res: &str, fresh: Option<u64>, ev: Option<u64>) -> String {
        let st = self.sigma_of(c, fresh);
        let cl = &self.clients[c];
        let g = cl.mdk.get_group(&self.gid).ok().flatten();
        let (ep, act) = g.as_ref().map(|g| (g.epoch, matches!(g.state, mdk_storage_traits::groups::types::GroupState::Active) as u8)).unwrap_or((0, 0));
        let mls = cl.mdk.load_mls_group(&self.gid).ok().flatten();
        let pend = mls.as_ref().map(|m| m.pending_commit().is_some() as u8).unwrap_or(0);
        let props = mls.as_ref().map(|m| m.pending_proposals().count()).unwrap_or(0);
        let mlsep = mls.as_ref().map(|m| m.epoch().as_u64()).unwrap_or(0);
        let snaps = cl.mdk.provider.storage().list_group_snapshots(&self.gid).map(|v| v.len()).unwrap_or(0);
        let dd = match ev.and_then(|e| self.events.get(&e)).and_then(|e| cl.mdk.provider.storage().find_processed_message_by_event_id(&e.event.id).ok().flatten()) {
            Some(p) => format!("{}/{}", pstate_n(p.state), p.epoch.map(|x| x.to_string()).unwrap_or("-".into())),
            None => "-".into(),
        };
        let mut msgs: Vec<(u64, u8, String)> = cl.mdk.get_messages(&self.gid, Some(Pagination::new(Some(10000), Some(0)))).unwrap_or_default().iter()
            .map(|m| (self.msg_ids.get(&m.id).cloned().unwrap_or(999), mstate_n(m.state), m.epoch.map(|x| x.to_string()).unwrap_or("-".into()))).collect();
        msgs.sort();
        let last = g.as_ref().and_then(|g| g.last_message_id).map(|id| self.msg_ids.get(&id).cloned().unwrap_or(999).to_string()).unwrap_or("-".into());
        let name = g.as_ref().map(|g| g.name.clone()).unwrap_or_default();
        let st = if act == 1 { st } else { "x".to_string() };
        format!("res={res} ep={ep} mls={mlsep} st={st} act={act} pend={pend} props={props} snaps={snaps} dd={dd} name={name} last={last} msgs={}",
            if msgs.is_empty() { "-".into() } else { msgs.iter().map(|(i, s, e)| format!("{i}:{s}:{e}")).collect::<Vec<_>>().join(",") })
    }

    /// Sorted member indices of the group as client c sees it (public API).
    pub fn members_of(&self, c: usize) -> Vec<usize> {
        let mut v: Vec<usize> = self.clients[c].mdk.get_members(&self.gid).unwrap_or_default().iter()
            .filter_map(|pk| self.clients.iter().position(|x| x.keys.public_key() == *pk)).collect();
        v.sort(); v
    }
    /// Wrap raw MLS message bytes exactly as build_message_event does (exporter secret of m's current epoch, NIP-44, h tag).
    fn wrap_raw(&self, m: usize, bytes: Vec<u8>, ts: u64) -> Event {
        use nostr::nips::nip44;
        let grp = self.clients[m].mdk.get_group(&self.gid).unwrap().unwrap();
        let mls = self.clients[m].mdk.load_mls_group(&self.gid).unwrap().unwrap();
        let secret = mls.export_secret(self.clients[m].mdk.provider.crypto(), "nostr", b"nostr", 32).unwrap();
        let keys = Keys::new(nostr::SecretKey::from_slice(&secret).unwrap());
        let content = nip44::encrypt(keys.secret_key(), &keys.public_key, &bytes, nip44::Version::default()).unwrap();
        EventBuilder::new(Kind::MlsGroupMessage, content)
            .tag(nostr::Tag::custom(nostr::TagKind::h(), [hex::encode(grp.nostr_group_id)]))
            .custom_created_at(nostr::Timestamp::from(self.base_ts + ts))
            .sign_with_keys(&Keys::generate()).unwrap()
    }

    fn set_ts(&self, ts: u64) { mdk_core::verif_hooks::set_wrapper_created_at(Some(self.base_ts + ts)); }

    /// Execute one case line; returns (line with facts appended, implementation fingerprint).
    pub fn exec(&mut self, line: &str) -> (String, String) {
        let t: Vec<&str> = line.split(" | ").next().unwrap().split(' ').collect();
        let n = |i: usize| t[i].parse::<u64>().unwrap();
        match t[1] {
            "COMMIT" => {
                let (m, kind, ev, ts) = (n(2) as usize, t[3], n(4), n(5));
                let st = self.sigma_of(m, None); let ep = self.mls_epoch(m);
                self.set_ts(ts);
                let gid = self.gid.clone();
                // OpenMLS sweeps the creator's pending proposals into the commit: members they remove (ground truth of the content)
                // (a pubkey shared by two devices denotes the device that asked to leave)
                let swept: Vec<usize> = self.clients[m].mdk.pending_removed_members_pubkeys(&gid).unwrap_or_default().iter()
                    .filter_map(|pk| (0..self.clients.len()).filter(|i| self.clients[*i].keys.public_key() == *pk).max_by_key(|i| self.leave_ev.contains_key(i))).collect();
                let victim: Option<usize> = kind.strip_prefix("rv").and_then(|v| v.parse().ok());
                let vpk = victim.map(|v| self.clients[v].keys.public_key());
                // ground truth of a removal: every client (device) of the removed identity
                let mut swept = swept;
                if let Some(pk) = vpk { for (i, c) in self.clients.iter().enumerate() { if c.keys.public_key() == pk && !swept.contains(&i) { swept.push(i); } } }
                let leave_refs: Vec<u64> = swept.iter().filter(|x| vpk.map(|pk| self.clients[**x].keys.public_key() != pk).unwrap_or(true)).filter_map(|x| self.leave_ev.get(x).or(self.rm_prop_ev.get(x))).cloned().collect();
                // ad<j> / un<j>: an admin grants / revokes admin rights of member j (update_group_data with a new admin list)
                let admin_change: Option<(bool, usize)> = kind.strip_prefix("ad").filter(|v| v.chars().all(|c| c.is_ascii_digit()) && !v.is_empty()).and_then(|v| v.parse().ok()).map(|j| (true, j))
                    .or_else(|| kind.strip_prefix("un").and_then(|v| v.parse().ok()).map(|j| (false, j)));
                let new_admins: Option<Vec<nostr::PublicKey>> = admin_change.and_then(|(grant, j)| {
                    let g = self.clients[m].mdk.load_mls_group(&gid).ok().flatten()?;
                    let mut a = mdk_core::extension::NostrGroupDataExtension::from_group(&g).ok()?.admins;
                    let pk = self.clients[j].keys.public_key();
                    if grant { a.insert(pk); } else { a.remove(&pk); }
                    Some(a.into_iter().collect())
                });
                let joiner: Option<usize> = kind.strip_prefix("add").and_then(|v| v.parse().ok());
                let jkp = joiner.map(|j| kp(&self.clients[j].mdk, &self.clients[j].keys));
                let r = catch_unwind(AssertUnwindSafe(|| match kind {
                    k if k.starts_with("add") => self.clients[m].mdk.add_members(&gid, &[jkp.clone().unwrap()]),
                    _ if new_admins.is_some() => self.clients[m].mdk.update_group_data(&gid, NostrGroupDataUpdate::new().admins(new_admins.clone().unwrap())),
                    k if k.starts_with("rv") => self.clients[m].mdk.remove_members(&gid, &[vpk.unwrap()]),
                    "su" => self.clients[m].mdk.self_update(&gid),
                    // a rename also rewrites the relay list (1-3 relays by event number: the list grows AND shrinks along a history)
                    _ => self.clients[m].mdk.update_group_data(&gid, NostrGroupDataUpdate::new().name(format!("g{}", ev + 1))
                        .relays(["wss://test.relay", "wss://r2.relay", "wss://r3.relay"][..1 + ((ev + 1) % 3) as usize].iter().map(|u| RelayUrl::parse(u).unwrap()).collect())),
                }));
                let is_admin = self.is_admin_now(m);
                match r {
                    Ok(Ok(u)) => {
                        self.register_pending(m, ev);
                        if let Some(wr) = &u.welcome_rumors { self.welcomes.insert(ev, wr.clone()); }
                        let key = id_order_key(&u.evolution_event.id);
                        self.events.insert(ev, EvInfo { event: u.evolution_event, kind: "commit".into(), author: m, state: st.parse().unwrap_or(9999), epoch: ep, ts, msg: None, ckind: kind.into(), refs: leave_refs.clone(), auth: is_admin || (kind == "su" && swept.is_empty()), removes: swept.clone() });
                        let removes = if swept.is_empty() { "-".to_string() } else { swept.iter().map(|x| x.to_string()).collect::<Vec<_>>().join(",") };
                        let refs: Vec<String> = leave_refs.iter().map(|e| e.to_string()).collect();
                        let refs = if refs.is_empty() { "-".to_string() } else { refs.join(",") };
                        let facts = format!("author={m} parent={st} pepoch={ep} idkey={key} auth={} data={} removes={removes} refs={refs}", (is_admin || (kind == "su" && swept.is_empty())) as u8, if kind == "rn" { ev + 1 } else { 0 });
                        (format!("{} | {facts}", t.join(" ")), self.fingerprint(m, "ok", None, Some(ev)))
                    }
                    Ok(Err(_)) => (format!("{} | refused=1 admin={}", t.join(" "), is_admin as u8), self.fingerprint(m, "Err", None, None)),
                    Err(_) => (format!("{} | refused=1", t.join(" ")), "PANIC".into()),
                }
            }
            "ADV" => {
                // a member builds a commit directly with OpenMLS, bypassing MDK's sender-side checks: PR ADV <m> rm <victim> <ev> <ts>
                use openmls::prelude::BasicCredential;
                use openmls_basic_credential::SignatureKeyPair;
                use tls_codec::Serialize as _;
                let (m, akind, victim, ev, ts) = (n(2) as usize, t[3], n(4) as usize, n(5), n(6));
                let st = self.sigma_of(m, None); let ep = self.mls_epoch(m);
                let is_admin = self.is_admin_now(m);
                // OpenMLS sweeps the builder's pending proposals into the commit (by reference), exactly as for MDK's own commits
                let swept: Vec<usize> = self.clients[m].mdk.pending_removed_members_pubkeys(&self.gid).unwrap_or_default().iter()
                    .filter_map(|pk| (0..self.clients.len()).filter(|i| self.clients[*i].keys.public_key() == *pk).max_by_key(|i| self.leave_ev.contains_key(i))).collect();
                let built = catch_unwind(AssertUnwindSafe(|| -> Option<Vec<u8>> {
                    let mdk = &self.clients[m].mdk;
                    let mut mls = mdk.load_mls_group(&self.gid).ok()??;
                    if mls.pending_commit().is_some() { return None; }
                    let leaf = mls.own_leaf()?;
                    let signer = SignatureKeyPair::read(mdk.provider.storage(), leaf.signature_key().as_slice(), mls.ciphersuite().signature_algorithm())?;
                    let bytes = if akind == "rm" {
                        let vpk = self.clients[victim].keys.public_key();
                        let vleaf = mls.members().find(|mm| BasicCredential::try_from(mm.credential.clone()).map(|c| c.identity() == vpk.to_bytes()).unwrap_or(false))?.index;
                        let (commit, _w, _gi) = mls.remove_members(&mdk.provider, &signer, &[vleaf]).ok()?;
                        commit.tls_serialize_detached().ok()?
                    } else if akind == "pr" {
                        // a standalone Remove PROPOSAL naming another member (MDK's API only ever proposes the caller's own leave);
                        // the builder does not keep it in its own proposal store
                        let vpk = self.clients[victim].keys.public_key();
                        if vpk == self.clients[m].keys.public_key() { return None; }
                        let vleaf = mls.members().find(|mm| BasicCredential::try_from(mm.credential.clone()).map(|c| c.identity() == vpk.to_bytes()).unwrap_or(false))?.index;
                        let (msg, pref) = mls.propose_remove_member(&mdk.provider, &signer, vleaf).ok()?;
                        mls.remove_pending_proposal(mdk.provider.storage(), &pref).ok()?;
                        msg.tls_serialize_detached().ok()?
                    } else if akind == "ic" {
                        if self.clients[victim].keys.public_key() == self.clients[m].keys.public_key() { return None; }
                        // a path-only commit whose leaf keeps the author's MLS signature key but names ANOTHER Nostr identity
                        // (that of client `victim`) in its credential
                        use openmls::prelude::{CredentialWithKey, LeafNodeParameters, NewSignerBundle};
                        let forged = CredentialWithKey { credential: BasicCredential::new(self.clients[victim].keys.public_key().to_bytes().to_vec()).into(), signature_key: signer.public().into() };
                        let params = LeafNodeParameters::builder().with_credential_with_key(forged.clone()).with_capabilities(leaf.capabilities().clone()).with_extensions(leaf.extensions().clone()).build();
                        let bundle = mls.self_update_with_new_signer(&mdk.provider, &signer, NewSignerBundle { signer: &signer, credential_with_key: forged }, params).ok()?;
                        bundle.commit().tls_serialize_detached().ok()?
                    } else {
                        // GroupContextExtensions commit replacing the group-data extension: "ga" grants the author admin
                        // rights, "gn" renames the group
                        use mdk_core::extension::NostrGroupDataExtension;
                        use openmls::prelude::{Extension, UnknownExtension};
                        let cur = mls.extensions().iter().find_map(|e| match e { Extension::Unknown(t, UnknownExtension(b)) if *t == NostrGroupDataExtension::EXTENSION_TYPE => Some(b.clone()), _ => None })?;
                        let mut gd = NostrGroupDataExtension::verif_from_bytes(&cur).ok()?;
                        if akind == "ga" { gd.admins.insert(self.clients[m].keys.public_key()); } else { gd.name = format!("g{}", ev + 1); }
                        let mut exts = mls.extensions().clone();
                        exts.add_or_replace(Extension::Unknown(NostrGroupDataExtension::EXTENSION_TYPE, UnknownExtension(gd.verif_to_bytes().ok()?))).ok()?;
                        let (commit, _w, _gi) = mls.update_group_context_extensions(&mdk.provider, exts, &signer).ok()?;
                        commit.tls_serialize_detached().ok()?
                    };
                    // the adversary does not keep the commit pending in its own client
                    mls.clear_pending_commit(mdk.provider.storage()).ok()?;
                    Some(bytes)
                }));
                match built {
                    Ok(Some(bytes)) if akind == "pr" => {
                        let e = self.wrap_raw(m, bytes, ts);
                        self.rm_prop_ev.insert(victim, ev);
                        self.events.insert(ev, EvInfo { event: e, kind: "prop".into(), author: m, state: st.parse().unwrap_or(9999), epoch: ep, ts, msg: None, ckind: "adv-pr".into(), refs: vec![], auth: false, removes: vec![victim] });
                        (format!("{} | author={m} state={st} epoch={ep} removes={victim}", t.join(" ")), "ok".into())
                    }
                    Ok(Some(bytes)) => {
                        let e = self.wrap_raw(m, bytes, ts);
                        let key = id_order_key(&e.id);
                        let mut removes: Vec<usize> = if akind == "rm" { vec![victim] } else { vec![] };
                        for x in &swept { if !removes.contains(x) { removes.push(*x); } }
                        // an inline Remove of a leaf that a pending proposal also removes: OpenMLS keeps the inline one only
                        let refs: Vec<u64> = swept.iter().filter(|x| !(akind == "rm" && **x == victim)).filter_map(|x| self.leave_ev.get(x).or(self.rm_prop_ev.get(x))).cloned().collect();
                        self.events.insert(ev, EvInfo { event: e, kind: "commit".into(), author: m, state: st.parse().unwrap_or(9999), epoch: ep, ts, msg: None, ckind: format!("adv-{akind}"), refs: refs.clone(), auth: is_admin, removes: removes.clone() });
                        let j = |v: Vec<String>| if v.is_empty() { "-".to_string() } else { v.join(",") };
                        // an identity change is a pure self-update as far as authorisation goes; it is refused by validate_commit_identities
                        // (with proposals swept from the builder's store it is no longer a pure self-update: a non-admin's is then refused as unauthorised first)
                        let (is_admin, bad) = if akind == "ic" { (is_admin || swept.is_empty(), " bad=8") } else { (is_admin, "") };
                        if akind == "ic" { if let Some(i) = self.events.get_mut(&ev) { i.auth = false; } }
                        (format!("{} | author={m} parent={st} pepoch={ep} idkey={key} auth={} data={} removes={} refs={}{bad}", t.join(" "), is_admin as u8, if akind == "gn" { ev + 1 } else { 0 }, j(removes.iter().map(|x| x.to_string()).collect()), j(refs.iter().map(|x| x.to_string()).collect())), "ok".into())
                    }
                    _ => (format!("{} | refused=1", t.join(" ")), "ok".into()),
                }
            }
            "RESTART" => {
                // clean shutdown and reopen of member m's library on the same database (persistent backends only)
                let m = n(2) as usize;
                let Some(re) = self.reopen.as_ref() else { return (t.join(" "), "skip".into()); };
                let storage = re(m);
                // optional 4th token: the retention configured for the new session
                let ret = if t.len() > 3 { n(3) as usize } else { self.ret_of.get(&m).cloned().unwrap_or(self.retention) };
                self.ret_of.insert(m, ret);
                let cfg = MdkConfig { epoch_snapshot_retention: ret, ..Default::default() };
                let cb = self.clients[m].cb.clone();
                let mdk = MDK::builder(storage).with_config(cfg).with_callback(cb).build();
                self.clients[m].mdk = mdk;
                (t.join(" "), self.fingerprint(m, "ok", None, None))
            }
            "MERGE" => {
                let (m, ev) = (n(2) as usize, n(3));
                let gid = self.gid.clone();
                let r = catch_unwind(AssertUnwindSafe(|| self.clients[m].mdk.merge_pending_commit(&gid)));
                match r { Ok(Ok(())) => (t.join(" "), self.fingerprint(m, "ok", Some(ev), Some(ev))), Ok(Err(_)) => (t.join(" "), self.fingerprint(m, "Err", None, Some(ev))), Err(_) => (t.join(" "), "PANIC".into()) }
            }
            "CLEAR" => {
                let m = n(2) as usize; let gid = self.gid.clone();
                let r = catch_unwind(AssertUnwindSafe(|| self.clients[m].mdk.clear_pending_commit(&gid)));
                match r { Ok(Ok(())) => (t.join(" "), self.fingerprint(m, "ok", None, None)), Ok(Err(_)) => (t.join(" "), self.fingerprint(m, "Err", None, None)), Err(_) => (t.join(" "), "PANIC".into()) }
            }
            "JOIN" => {
                // PR JOIN <j> <ev>: spare client j processes and accepts the welcome produced by add-commit ev
                let (j, ev) = (n(2) as usize, n(3));
                let Some(info) = self.events.get(&ev).cloned() else { return (format!("{} | refused=1", t.join(" ")), "skip".into()); };
                let Some(wr) = self.welcomes.get(&ev).and_then(|v| v.first()).cloned() else { return (format!("{} | refused=1", t.join(" ")), "skip".into()); };
                // group name at the add commit's parent state = the author's current name (scripted: nothing happened in between)
                let data = self.clients[info.author].mdk.get_group(&self.gid).ok().flatten().map(|g| g.name.trim_start_matches('g').parse::<u64>().unwrap_or(0)).unwrap_or(0);
                let r = catch_unwind(AssertUnwindSafe(|| { let w = self.clients[j].mdk.process_welcome(&EventId::all_zeros(), &wr)?; self.clients[j].mdk.accept_welcome(&w) }));
                match r {
                    Ok(Ok(())) => { self.joined[j] = true; (format!("{} | state={} epoch={} data={data}", t.join(" "), ev + 1, info.epoch + 1), self.fingerprint(j, "ok", None, None)) }
                    _ => (format!("{} | refused=1", t.join(" ")), "skip".into()),
                }
            }
            "SEND" | "SENDF" => {
                let (m, ev, ts, msg) = (n(2) as usize, n(3), n(4), n(5));
                let st = self.sigma_of(m, None); let ep = self.mls_epoch(m);
                self.set_ts(ts);
                // SENDF: the (malicious) sender names client t[6] as the author of the inner rumor
                let forged = t[1] == "SENDF";
                let apk = if forged { self.clients[n(6) as usize].keys.public_key() } else { self.clients[m].keys.public_key() };
                let mut rumor: UnsignedEvent = EventBuilder::new(Kind::Custom(9), format!("text {msg}")).custom_created_at(nostr::Timestamp::from(self.base_ts + msg)).build(apk);
                rumor.ensure_id();
                let rid = rumor.id.unwrap();
                // optional 7th token: number of an existing message whose id the (malicious) sender pre-sets on its rumor
                let victim = if t.len() > 6 && !forged { self.msg_ids.iter().find(|(_, n)| **n == t[6].parse::<u64>().unwrap()).map(|(id, _)| *id) } else { None };
                if let Some(vid) = victim { rumor.id = Some(vid); }
                let gid = self.gid.clone();
                let r = catch_unwind(AssertUnwindSafe(|| self.clients[m].mdk.create_message(&gid, rumor)));
                match r {
                    Ok(Ok(e)) => {
                        self.msg_ids.insert(rid, msg);
                        self.events.insert(ev, EvInfo { event: e, kind: "app".into(), author: m, state: st.parse().unwrap_or(9999), epoch: ep, ts, msg: Some((msg, rid)), ckind: if forged { "forged".into() } else { String::new() }, refs: vec![], auth: true, removes: vec![] });
                        (format!("{} | author={m} state={st} epoch={ep}{}{}", t.join(" "), if victim.is_some() { format!(" sender_key={}", t[6]) } else { String::new() }, if forged { " bad=7" } else { "" }), self.fingerprint(m, "ok", None, Some(ev)))
                    }
                    Ok(Err(_)) => (format!("{} | refused=1", t.join(" ")), self.fingerprint(m, "Err", None, None)),
                    Err(_) => (format!("{} | refused=1", t.join(" ")), "PANIC".into()),
                }
            }
            "LEAVE" => {
                let (m, ev, ts) = (n(2) as usize, n(3), n(4));
                let st = self.sigma_of(m, None); let ep = self.mls_epoch(m);
                self.set_ts(ts);
                let gid = self.gid.clone();
                let r = catch_unwind(AssertUnwindSafe(|| self.clients[m].mdk.leave_group(&gid)));
                match r {
                    Ok(Ok(u)) => {
                        self.leave_ev.insert(m, ev);
                        let key = id_order_key(&u.evolution_event.id);
                        self.events.insert(ev, EvInfo { event: u.evolution_event, kind: "prop".into(), author: m, state: st.parse().unwrap_or(9999), epoch: ep, ts, msg: None, ckind: "leave".into(), refs: vec![], auth: true, removes: vec![] });
                        (format!("{} | author={m} state={st} epoch={ep} idkey={key}", t.join(" ")), self.fingerprint(m, "ok", None, Some(ev)))
                    }
                    Ok(Err(_)) => (format!("{} | refused=1", t.join(" ")), self.fingerprint(m, "Err", None, None)),
                    Err(_) => (format!("{} | refused=1", t.join(" ")), "PANIC".into()),
                }
            }
            "BAD" => {
                // hostile / malformed wrapper events built by an outsider: PR BAD <ev> <ts> <class>
                //   0 wrong kind (valid h tag)   1 no h tag   2 h tag of an unknown group   3 undecryptable content (valid h tag)
                //   4 timestamp far in the future (valid h tag)
                let (ev, ts, cls) = (n(2), n(3), n(4));
                let g = self.clients[0].mdk.get_group(&self.gid).ok().flatten().unwrap();
                let h = nostr::Tag::custom(nostr::TagKind::h(), [hex::encode(g.nostr_group_id)]);
                let keys = Keys::generate();
                let content = "AgEBAQEBAQEBAQEBAQEBAQEBAQEBAQEBAQEBAQEBAQEBAQEBAQEBAQEBAQEBAQEBAQEBAQEBAQEBAQEBAQEBAQEBAQEBAQEBAQEBAQEBAQEBAQEBAQEBAQEBAQEBAQEBAQEB";
                let created = nostr::Timestamp::from(if cls == 4 { self.base_ts + 5000 + 100000 } else { self.base_ts + ts });
                let b = match cls {
                    0 | 4 => EventBuilder::new(if cls == 0 { Kind::TextNote } else { Kind::MlsGroupMessage }, content).tag(h),
                    1 => EventBuilder::new(Kind::MlsGroupMessage, content),
                    2 => EventBuilder::new(Kind::MlsGroupMessage, content).tag(nostr::Tag::custom(nostr::TagKind::h(), [hex::encode([0x5au8; 32])])),
                    _ => EventBuilder::new(Kind::MlsGroupMessage, content).tag(h),
                };
                let e = b.custom_created_at(created).sign_with_keys(&keys).unwrap();
                let model_cls = match cls { 0 | 4 => 0, 1 => 1, 2 => 2, _ => 3 };
                self.events.insert(ev, EvInfo { event: e, kind: "bad".into(), author: 99, state: 9999, epoch: 0, ts, msg: None, ckind: format!("bad{cls}"), refs: vec![], auth: false, removes: vec![] });
                (format!("{} | bad={model_cls}", t.join(" ")), "ok".into())
            }
            "DELIVER" => {
                let (m, ev) = (n(2) as usize, n(3));
                let ats = if t.len() > 4 { n(4) } else { 100 };
                let Some(info) = self.events.get(&ev).cloned() else { return (format!("{} | unknown=1", t.join(" ")), "skip".into()); };
                if !self.joined[m] { return (t.join(" "), "skip".into()); }
                self.set_ts(ats);
                let r = catch_unwind(AssertUnwindSafe(|| self.clients[m].mdk.process_message(&info.event)));
                match r {
                    Ok(r) => {
                        let k = result_kind(&r);
                        if std::env::var("VERIF_SHOW_ERR").is_ok() { for r in crate::logcap::drain() { eprintln!("   log: {}", r.text().chars().take(300).collect::<String>()); } eprintln!("DELIVER {m} {ev}: {:?}", r.as_ref().map(|x| format!("{x:?}").chars().take(160).collect::<String>())); }
                        let mut line = t.join(" ");
                        // an admin auto-committing a leave proposal produces a new commit event, numbered 1000 + 8*ev + member
                        if let Ok(MessageProcessingResult::Proposal(u)) = &r {
                            let aev = 1000 + ev * 8 + m as u64;
                            self.register_pending(m, aev);
                            let st = self.sigma_of(m, None); let ep = self.mls_epoch(m);
                            let key = id_order_key(&u.evolution_event.id);
                            self.events.insert(aev, EvInfo { event: u.evolution_event.clone(), kind: "commit".into(), author: m, state: st.parse().unwrap_or(9999), epoch: ep, ts: ats, msg: None, ckind: "auto".into(), refs: vec![ev], auth: true, removes: vec![info.author] });
                            line = format!("{line} | autoev={aev} autokey={key} autots={ats}");
                        }
                        let fresh = if info.kind == "commit" { Some(ev) } else { None };
                        let rb = self.clients[m].cb.0.lock().unwrap().len();
                        let fp = self.fingerprint(m, k, fresh, Some(ev));
                        (line, format!("{fp} rb={rb}"))
                    }
                    Err(_) => (t.join(" "), "PANIC".into()),
                }
            }
            _ => (t.join(" "), "UNKNOWN-CASE".into()),
        }
    }
}

pub fn pstate_n(s: ProcessedMessageState) -> u64 { use ProcessedMessageState::*; match s { Created => 0, Processed => 1, ProcessedCommit => 2, Failed => 3, EpochInvalidated => 4, Retryable => 5 } }
pub fn mstate_n(s: MessageState) -> u8 { match s { MessageState::Created => 0, MessageState::Processed => 1, MessageState::Deleted => 2, MessageState::EpochInvalidated => 3 } }
