//! Log capture for property C14: a hand-written `tracing::Subscriber` (no tracing-subscriber) that stores every
//! event (TRACE and up) with its metadata and rendered fields, and a scanner that searches captured text for
//! live sensitive values in several encodings.
use std::fmt::Write as _;
use std::sync::Mutex;

use tracing::field::{Field, Visit};
use tracing::span;
use tracing::{Event, Metadata, Subscriber};

#[derive(Debug, Clone)]
pub struct Record {
    pub level: String,
    pub target: String,
    pub file: String,
    pub line: u32,
    /// the `message` field (the formatted format string)
    pub message: String,
    /// every other field, rendered through its Debug impl (`%x` fields arrive as Display-through-Debug)
    pub fields: Vec<(String, String)>,
}

impl Record {
    /// everything that a log backend could print for this record
    pub fn text(&self) -> String {
        let mut s = format!("{} {} {}", self.level, self.target, self.message);
        for (k, v) in &self.fields {
            let _ = write!(s, " {k}={v}");
        }
        s
    }
}

static RECORDS: Mutex<Vec<Record>> = Mutex::new(Vec::new());

struct FieldVisitor<'a>(&'a mut Record);
impl Visit for FieldVisitor<'_> {
    fn record_debug(&mut self, field: &Field, value: &dyn std::fmt::Debug) {
        let v = format!("{value:?}");
        if field.name() == "message" { self.0.message = v; } else { self.0.fields.push((field.name().to_string(), v)); }
    }
    fn record_str(&mut self, field: &Field, value: &str) {
        if field.name() == "message" { self.0.message = value.to_string(); } else { self.0.fields.push((field.name().to_string(), value.to_string())); }
    }
}

/// Accepts everything; spans are ignored (the library emits events only, a span would just get id 1).
pub struct Capture;

impl Subscriber for Capture {
    fn enabled(&self, _: &Metadata<'_>) -> bool { true }
    fn max_level_hint(&self) -> Option<tracing::level_filters::LevelFilter> { Some(tracing::level_filters::LevelFilter::TRACE) }
    fn new_span(&self, _: &span::Attributes<'_>) -> span::Id { span::Id::from_u64(1) }
    fn record(&self, _: &span::Id, _: &span::Record<'_>) {}
    fn record_follows_from(&self, _: &span::Id, _: &span::Id) {}
    fn event(&self, event: &Event<'_>) {
        let m = event.metadata();
        let mut r = Record {
            level: m.level().to_string(),
            target: m.target().to_string(),
            file: m.file().unwrap_or("").to_string(),
            line: m.line().unwrap_or(0),
            message: String::new(),
            fields: vec![],
        };
        event.record(&mut FieldVisitor(&mut r));
        if let Ok(mut g) = RECORDS.lock() { g.push(r); }
    }
    fn enter(&self, _: &span::Id) {}
    fn exit(&self, _: &span::Id) {}
}

/// Install the capturing subscriber as the global default (once per process).
pub fn install() -> bool {
    tracing::dispatcher::set_global_default(tracing::Dispatch::new(Capture)).is_ok()
}

/// Take (and clear) everything captured so far.
pub fn drain() -> Vec<Record> {
    RECORDS.lock().map(|mut g| std::mem::take(&mut *g)).unwrap_or_default()
}

/// Copy of everything captured so far.
pub fn snapshot() -> Vec<Record> {
    RECORDS.lock().map(|g| g.clone()).unwrap_or_default()
}

#[derive(Debug, Clone)]
pub struct Leak {
    /// label of the sensitive value that was found
    pub label: String,
    /// "hex" | "HEX" | "bytes-debug" | "base64"
    pub encoding: &'static str,
    /// where: "file:line" of a log record
    pub site: String,
    pub file: String,
    pub line: u32,
    pub text: String,
}

fn b64(data: &[u8], alphabet: &[u8; 64], pad: bool) -> String {
    let mut out = String::new();
    for ch in data.chunks(3) {
        let b = [ch[0], *ch.get(1).unwrap_or(&0), *ch.get(2).unwrap_or(&0)];
        let n = ((b[0] as u32) << 16) | ((b[1] as u32) << 8) | b[2] as u32;
        out.push(alphabet[(n >> 18) as usize & 63] as char);
        out.push(alphabet[(n >> 12) as usize & 63] as char);
        if ch.len() > 1 { out.push(alphabet[(n >> 6) as usize & 63] as char); } else if pad { out.push('='); }
        if ch.len() > 2 { out.push(alphabet[n as usize & 63] as char); } else if pad { out.push('='); }
    }
    out
}

const STD: &[u8; 64] = b"ABCDEFGHIJKLMNOPQRSTUVWXYZabcdefghijklmnopqrstuvwxyz0123456789+/";
const URL: &[u8; 64] = b"ABCDEFGHIJKLMNOPQRSTUVWXYZabcdefghijklmnopqrstuvwxyz0123456789-_";

/// All textual forms of a byte string that the scanner looks for.
pub fn encodings(v: &[u8]) -> Vec<(&'static str, String)> {
    let lower: String = v.iter().map(|b| format!("{b:02x}")).collect();
    let upper = lower.to_uppercase();
    let list = v.iter().map(|b| b.to_string()).collect::<Vec<_>>().join(", ");
    vec![
        ("hex", lower),
        ("HEX", upper),
        ("bytes-debug", list),                      // `[1, 2, 3]` without the brackets, so that nested forms match too
        ("base64", b64(v, STD, false)),             // unpadded prefix also matches the padded form
        ("base64", b64(v, URL, false)),
    ]
}

/// Search one text for every sensitive value; values shorter than 8 bytes are ignored (too many accidental hits).
pub fn scan_text(text: &str, sensitive: &[(String, Vec<u8>)]) -> Vec<(String, &'static str)> {
    let mut res = vec![];
    for (label, v) in sensitive {
        if v.len() < 8 { continue; }
        for (enc, s) in encodings(v) {
            if text.contains(&s) {
                res.push((label.clone(), enc));
                break;
            }
        }
    }
    res
}

/// Search every captured record.
pub fn scan(records: &[Record], sensitive: &[(String, Vec<u8>)]) -> Vec<Leak> {
    let mut leaks = vec![];
    for r in records {
        let t = r.text();
        for (label, encoding) in scan_text(&t, sensitive) {
            leaks.push(Leak { label, encoding, site: format!("{}:{}", r.file, r.line), file: r.file.clone(), line: r.line, text: t.clone() });
        }
    }
    leaks
}
