//! Shared helpers for the verification harness binaries.
pub mod rng;
pub mod out;
pub mod world;
pub mod logcap;
