//! Output protocol shared by the harness binaries:
//!   <out>/cases.txt  – one model-input line per case (fed to the extracted model)
//!   <out>/impl.txt   – the implementation's canonicalised result for the same line
//!   <out>/oracle.txt – property-oracle failures observed directly on the implementation
//!   <out>/stats.json – evaluations, distinct non-trivial cases, input distribution, samples
use std::collections::{BTreeMap, BTreeSet};
use std::io::Write;
use std::path::PathBuf;

pub struct Run {
    pub dir: PathBuf,
    pub cases: Vec<String>,
    pub impl_out: Vec<String>,
    /// property-oracle failures on the implementation: (property id, finding class or "", description, replay case)
    pub oracle: Vec<(String, String, String, String)>,
    pub dist: BTreeMap<String, u64>,
    pub nontrivial: BTreeSet<String>,
    pub samples: Vec<String>,
    pub rule: String,
}

impl Run {
    pub fn new(dir: &str, rule: &str) -> Self {
        std::fs::create_dir_all(dir).unwrap();
        Run { dir: dir.into(), cases: vec![], impl_out: vec![], oracle: vec![], dist: BTreeMap::new(),
              nontrivial: BTreeSet::new(), samples: vec![], rule: rule.into() }
    }
    /// A model/impl pair.  `class` feeds the input-distribution table; `nontrivial` marks cases that reach
    /// a non-trivial branch (counted distinct by case text).
    pub fn case(&mut self, class: &str, nontrivial: bool, case: String, impl_res: String) {
        *self.dist.entry(class.to_string()).or_insert(0) += 1;
        if nontrivial { self.nontrivial.insert(case.clone()); }
        if self.samples.len() < 6 && (self.cases.len() % 97 == 0) { self.samples.push(format!("{case} => {impl_res}")); }
        self.cases.push(case);
        self.impl_out.push(impl_res);
    }
    pub fn count(&mut self, class: &str) { *self.dist.entry(class.to_string()).or_insert(0) += 1; }
    /// A property-oracle failure observed on the implementation.  `class` is the known-finding class the
    /// failing input falls in ("" if none); `replay` is the case text that reproduces it.
    pub fn oracle_fail(&mut self, prop: &str, class: &str, desc: String, replay: String) {
        self.oracle.push((prop.into(), class.into(), desc, replay));
    }
    pub fn finish(&self) {
        let w = |name: &str, lines: &[String]| {
            let mut f = std::io::BufWriter::new(std::fs::File::create(self.dir.join(name)).unwrap());
            for l in lines { writeln!(f, "{l}").unwrap(); }
        };
        w("cases.txt", &self.cases);
        w("impl.txt", &self.impl_out);
        let o: Vec<String> = self.oracle.iter().map(|(p, c, d, r)| format!("{p}\t{c}\t{}\t{}", d.replace('\t', " "), r.replace('\t', " "))).collect();
        w("oracle.txt", &o);
        let stats = serde_json::json!({
            "evaluations": self.cases.len(),
            "distinct_nontrivial": self.nontrivial.len(),
            "rule": self.rule,
            "distribution": self.dist,
            "samples": self.samples,
            "oracle_failures": self.oracle.len(),
        });
        std::fs::write(self.dir.join("stats.json"), serde_json::to_string_pretty(&stats).unwrap()).unwrap();
    }
}

pub fn hex(b: &[u8]) -> String { if b.is_empty() { "-".into() } else { hex::encode(b) } }
pub fn hexlist<I: IntoIterator<Item = Vec<u8>>>(l: I) -> String {
    let v: Vec<String> = l.into_iter().map(|b| hex(&b)).collect();
    if v.is_empty() { "-".into() } else { v.join(",") }
}

pub fn arg(name: &str) -> Option<String> {
    let a: Vec<String> = std::env::args().collect();
    a.iter().position(|x| x == name).and_then(|i| a.get(i + 1).cloned())
}
