#!/bin/bash
# Extract the Coq models to OCaml (ExtrOcamlBasic only) and compile the line-oriented driver.
# Output: /verif/.cache/ocaml/model_run.  Rebuilds only when the extracted sources or driver change.
set -e
V=/verif
OUT=$V/.cache/ocaml
mkdir -p "$OUT/src"
STAMP="$OUT/stamp"
NEW=$(cat $(find $V/coq -name '*.v' | sort) $V/ocaml/*.ml | sha256sum | cut -d' ' -f1)
if [ -x "$OUT/model_run" ] && [ -f "$STAMP" ] && [ "$(cat $STAMP)" = "$NEW" ]; then exit 0; fi
find "$OUT/src" -maxdepth 1 -type f -delete
cd "$OUT/src"
timeout 600 coqc -Q $V/coq MDK $V/coq/Extract/Extract.v > "$OUT/extract.log" 2>&1 || { cat "$OUT/extract.log"; exit 1; }
cp $V/ocaml/drv_*.ml .
FILES="$(ocamlfind ocamldep -sort *.mli *.ml) $V/ocaml/zz_main.ml"
timeout 600 ocamlfind ocamlopt -O3 -w -a $FILES -o "$OUT/model_run" > "$OUT/ocaml.log" 2>&1 || { cat "$OUT/ocaml.log"; exit 1; }
echo "$NEW" > "$STAMP"
