#!/usr/bin/env python3
"""C14 static violation report: the sinks of the current source that the Coq checker (Flow/Taint.v `check_except
known_site`) flags, as JSON for a replay file.  Re-uses the translator's parse; the taint computation below is the
Python twin of `taint_list` / `flagged_with`.

  tools/c14_report.py [--root /repo] [--findings /verif/known_findings.jsonl] [--all]

Prints {"offending": [...], "known": [...]}.  Exit 0 if no offending (= flagged and not known) sink, 1 otherwise.
A known site is identified by the class "site:<file>:<format-string prefix>" of a C14 entry in known_findings.jsonl."""
import json, os, sys, argparse

sys.path.insert(0, os.path.join(os.path.dirname(os.path.abspath(__file__)), "translate"))
import sites as tr  # noqa: E402


def known_classes(path):
    res = []
    if os.path.exists(path):
        for line in open(path):
            line = line.strip()
            if not line or line.startswith("#"):
                continue
            d = json.loads(line)
            if d.get("property") == "C14" and d.get("status") == "finding" and d.get("class", "").startswith("site:"):
                _, f, prefix = d["class"].split(":", 2)
                res.append((f, prefix, d["class"]))
    return res


def site_class(s, known):
    for f, prefix, cls in known:
        if s["file"] == f and s["fmt"].startswith(prefix):
            return cls
    return ""


def analyse(sites):
    """-> (tainted nodes, list of (site, [(arg, class, why)]))"""
    src, succ = set(), {}
    for s in sites:
        for x, c in s["args"]:
            if c == "Sensitive":
                src.add(s["owner"])
            elif isinstance(c, tuple):
                succ.setdefault(s["owner"], set()).add(c[1])
    tainted, changed = set(src), True
    while changed:
        changed = False
        for e, ns in succ.items():
            if e not in tainted and ns & tainted:
                tainted.add(e); changed = True
    flagged = []
    for s in sites:
        why = []
        for x, c in s["args"]:
            if c == "Sensitive":
                why.append({"argument": x, "class": "Sensitive", "why": "denotes a sensitive value (classifier table)"})
            elif isinstance(c, tuple) and c[1] in tainted:
                why.append({"argument": x, "class": "OpaqueMdk " + c[1], "why": "the text of a %s value can contain a sensitive value" % c[1]})
        if why:
            flagged.append((s, why))
    return tainted, flagged


def main():
    ap = argparse.ArgumentParser()
    ap.add_argument("--root", default="/repo")
    ap.add_argument("--findings", default="/verif/known_findings.jsonl")
    a = ap.parse_args()
    ex = tr.extract(a.root)
    known = known_classes(a.findings)
    tainted, flagged = analyse(ex.sites)
    out = {"root": a.root, "tainted_nodes": sorted(tainted), "offending": [], "known": []}
    for s, why in flagged:
        row = {"file": s["file"], "line": s["line"], "kind": s["kind"], "owner": s["owner"], "function": s["fn"],
               "format": s["fmt"], "arguments": why, "class": site_class(s, known)}
        out["known" if row["class"] else "offending"].append(row)
    print(json.dumps(out, indent=1))
    return 1 if out["offending"] else 0


if __name__ == "__main__":
    sys.exit(main())
