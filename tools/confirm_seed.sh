#!/bin/bash
# confirm_seed.sh <ID> <worktree>: confirm a seeded change myself: (1) builds, (2) the existing suite passes with it,
# (3) the demonstration test fails with it, (4) passes without it. Writes <worktree>/SEED/confirm.json and copies SEED to /verif/seeded/<ID>/.
id=$1; wt=$2; lc=$(echo $id | tr A-Z a-z)
export CARGO_TARGET_DIR=$wt/target CARGO_NET_OFFLINE=true
cd $wt || exit 2
demo=seeded_$lc
[ -f crates/mdk-core/tests/$demo.rs ] || demo=$(ls crates/*/tests/seeded_* | head -1 | xargs basename | sed 's/\.rs$//')
democrate=$(ls -d crates/*/tests/$demo.rs | cut -d/ -f2)
# suite with the change, demo test moved aside
mv crates/$democrate/tests/$demo.rs /tmp/$demo.rs.aside
timeout 3000 cargo test --workspace --no-fail-fast --offline > SEED/suite.log 2>&1; suite_rc=$?
mv /tmp/$demo.rs.aside crates/$democrate/tests/$demo.rs
timeout 1500 cargo test -p $democrate --test $demo --offline > SEED/demo_with.log 2>&1; with_rc=$?
git diff -- . ':!SEED' > /tmp/$id.patch
git apply -R /tmp/$id.patch
timeout 1500 cargo test -p $democrate --test $demo --offline > SEED/demo_without.log 2>&1; without_rc=$?
git apply /tmp/$id.patch
npass=$(grep -h "^test result" SEED/suite.log | awk '{p+=$4; f+=$6} END {print p" "f}')
echo "{\"id\":\"$id\",\"suite_rc\":$suite_rc,\"suite_passed_failed\":\"$npass\",\"demo_with_change_rc\":$with_rc,\"demo_without_change_rc\":$without_rc}" > SEED/confirm.json
cat SEED/confirm.json
mkdir -p /verif/seeded/$id; cp SEED/patch.diff SEED/meta.json SEED/confirm.json /verif/seeded/$id/; cp crates/$democrate/tests/$demo.rs /verif/seeded/$id/demo.rs
tail -5 SEED/demo_with.log > /verif/seeded/$id/demo_with_change.txt; tail -5 SEED/demo_without.log > /verif/seeded/$id/demo_without_change.txt
