#!/bin/bash
# run_seed.sh <ID> <prop> [<prop>...] : apply seeded/<ID>/patch.diff to /repo, run the listed checks (quick tier), record the
# outcome in seeded/<ID>/result.json, undo the change.  Evidence files are saved and restored: a mutation run is not evidence.
id=$1; shift
cd /verif
[ -z "$(git -C /repo status --porcelain)" ] || { echo "/repo not clean"; exit 2; }
rm -rf .cache/evidence_backup; cp -r evidence .cache/evidence_backup
git -C /repo apply /verif/seeded/$id/patch.diff || exit 2
res="["
for p in "$@"; do
  out=$(./check $p 2>&1); rc=$?
  viol=$(echo "$out" | grep "^VIOLATION" | head -2 | tr '\n' ';' | sed 's/"/\\"/g')
  broken=$(echo "$out" | grep "^  broken:" | head -1 | cut -c1-300 | sed 's/\\/\\\\/g; s/"/\\"/g')
  summary=$(echo "$out" | grep "^check " | sed 's/"/\\"/g')
  for f in $(echo "$out" | grep "^VIOLATION" | sed 's/.*replay=\([^ ]*\).*/\1/' | head -1); do mkdir -p seeded/$id/replays; cp $f seeded/$id/replays/ 2>/dev/null; done
  res="$res{\"check\":\"$p\",\"exit\":$rc,\"summary\":\"$summary\",\"violation\":\"$viol\",\"first_broken\":\"$broken\"},"
  echo "$p exit=$rc $viol"
done
res="${res%,}]"
git -C /repo checkout -- .
# the generated tables were regenerated from the mutated tree: regenerate them from the restored one
for t in ext_layout sql_tables lock_table keyring_prog sites media_consts tx_brackets; do python3 tools/translate/$t.py >/dev/null 2>&1; done
rm -rf evidence; mv .cache/evidence_backup evidence
echo "$res" > seeded/$id/${RESULT_NAME:-result.json}
python3 -c "import json,sys;json.load(open(sys.argv[1]))" seeded/$id/${RESULT_NAME:-result.json} || echo "result.json invalid"
