#!/usr/bin/env python3
"""Source -> Coq: every place where the four library crates turn values into text that leaves the library
(log records, error Display strings, failure reasons), with each interpolated argument classified.

  tools/translate/sites.py [--root /repo] [--out <Sites.v>] [--json <sites.json>] [--no-write]

Writes coq/Gen/Sites.v (only when changed) and .cache/gen/sites.json.  Python 3 stdlib only.
Imported by tools/c14_report.py (function `extract`).

SINKS
  log           tracing::{trace,debug,info,warn,error}!(...)  (also bare macro names)
  error-attr    #[error("...")] / #[error(transparent)] on a variant of a thiserror enum (arguments = fields used)
  error-format  a constructor call  <ErrorEnum>::<Variant>(expr) / Self::<Variant>(expr) / { field: expr }, a
                `failure_reason: Some(expr)` initialiser, `Err(expr)` / a `format!` inside a function whose error
                type is String (owner "fn:<name>")
An argument that is a nested format!(...) or a local bound by `let x = <rhs>` is replaced by the arguments of
that format!/rhs (flattening), so `let s = format!("..{:?}", e); Error::Welcome(s)` records `e` at the constructor.

CLASSES (table driven, see SENSITIVE_PATTERNS / BENIGN_PATTERNS / THIRD_PARTY_* below; mirrored into Sites.v)
  Sensitive | Benign | ThirdParty | OpaqueMdk <node>   (node = qualified error enum, "failure_reason", "fn:<name>")
"""
import re, sys, os, json, hashlib

sys.path.insert(0, os.path.dirname(os.path.abspath(__file__)))
from common import write_if_changed, fail  # noqa: E402

CRATES = ["mdk-core", "mdk-storage-traits", "mdk-memory-storage", "mdk-sqlite-storage"]
LEVELS = ("trace", "debug", "info", "warn", "error")

# ---------------------------------------------------------------------------------------------------------
# classifier tables (data; emitted verbatim into Sites.v as `classifier_table`)
# Each row: (class, kind-of-match, regex on the normalised expression text).  First matching row wins;
# rows are tried in the order BENIGN_FIRST, SENSITIVE, BENIGN.
BENIGN_FIRST = [
    # things whose names contain a sensitive word but which are not the value itself
    ("Benign", "count/len/size of something", r"(\.len\(\)|\.count\(\)|\.is_empty\(\)|\.is_some\(\)|\.is_none\(\)|_len\b|_count\b|_size\b|\bnum_\w+)$"),
    ("Benign", "keyring identifiers (service id / key id are lookup names, not key material)", r"^(self\.)?(service_id|db_key_id|key_id)$"),
    ("Benign", "expected/actual lengths", r"^(expected|actual|got|max|min)(_\w+)?$"),
]
SENSITIVE = [
    ("Sensitive", "MLS / Nostr group id by name", r"\b(mls_group_id|nostr_group_id|group_id|groupid|gid|group_id_hex|nostr_group_id_hex|mls_group_id_hex|h_tag_value|group_id_bytes)\b"),
    ("Sensitive", "value of type GroupId", r"\bGroupId\b"),
    ("Sensitive", "exporter secret / any secret", r"\b(\w*secret\w*|Secret)\b"),
    ("Sensitive", "image key / nonce / seed / upload key", r"\b(image_key|image_nonce|image_seed|image_upload_key|upload_key|upload_secret_key|upload_keypair|encryption_key|decryption_key|file_key|media_key|nonce)\b"),
    ("Sensitive", "database key / EncryptionConfig.key / key bytes", r"\b(db_key|database_key|key_bytes|raw_key|config\.key|encryption_config|EncryptionConfig|keys?\.secret_key|secret_key|private_key|signing_key|key_hex)\b|\.key\b|^key$"),
    ("Sensitive", "whole Nostr events / rumors (the h tag of a group event is the hex Nostr group id; a rumor carries the content)", r"(^|\.)(evolution_event|event|rumor|rumor_event|wrapper_event|welcome_rumor|welcome_rumors|unsigned_event|commit_event|proposal_event)$"),
    ("Sensitive", "snapshot names embed the group id hex (snap_{group_id_hex}_{epoch}_{commit})", r"\b(snapshot_name|snap_name|snapshot_names)\b"),
    ("Sensitive", "whole group / extension / config records printed (contain ids and image keys)", r"^(group|stored_group|mls_group|group_data|nostr_group_data|group_data_extension|extension|config|welcome|staged_welcome|snapshot)$"),
]
BENIGN = [
    ("Benign", "literal", r'^("|\d|true$|false$|b")'),
    ("Benign", "epochs / counters / indices / timestamps", r"(epoch|index|idx|count|len|size|version|timestamp|created_at|processed_at|age|attempt|retry|retries|elapsed|duration|_ms\b|_secs\b|limit|offset|depth|width|height|bytes_read|total|remaining|max_\w+|min_\w+)"),
    ("Benign", "event ids / kinds / public keys / relay urls / mime types / file names / hashes of public data", r"(event_id|event\.id|\.id\b|^id$|kind|pubkey|public_key|author|sender|signer|identity|relay|url|mime|media_type|filename|file_name|hash|format|encoding|state|status|reason|tag|path|field_name|label|name|scheme|algorithm|ciphersuite|extension_type|proposal_type|content_type|variant|role|member|leaf)"),
]
# how the static type / origin of an error value is classified
THIRD_PARTY_CRATES = ["rusqlite", "refinery", "serde_json", "serde", "tls_codec", "openmls", "openmls_traits", "openmls_basic_credential",
                      "hex", "nostr", "std", "core", "keyring_core", "base64", "image", "chacha20poly1305", "hkdf", "sha2", "blurhash", "getrandom", "url"]
# names under which an error value is usually bound
ERROR_VAR = re.compile(r"^(e|err|error|_e|_err|source|cause|e\d|inner|other|\w+_err|\w+_error)$")
# method names whose Err type is third-party (receiver is a third-party object); consulted only when the
# name is not a function defined in the four crates
FAILURE_REASON_NODE = "failure_reason"
# which crates' error enums a value in a given crate can be
VISIBLE = {"mdk-core": ["mdk_core::", "mdk_storage_traits::"], "mdk-storage-traits": ["mdk_storage_traits::"],
           "mdk-memory-storage": ["mdk_storage_traits::"], "mdk-sqlite-storage": ["mdk_sqlite_storage::", "mdk_storage_traits::"]}


# ---------------------------------------------------------------------------------------------------------
# lexing: `mask` has the same length as the text; comments become spaces, the inside of string/char literals
# becomes \x01 (quotes are kept), so bracket matching and regexes can run on it.
def lex(text):
    n = len(text)
    out = list(text)
    i = 0
    while i < n:
        c = text[i]
        if c == "/" and i + 1 < n and text[i + 1] == "/":
            j = text.find("\n", i)
            j = n if j < 0 else j
            for k in range(i, j):
                out[k] = " "
            i = j
        elif c == "/" and i + 1 < n and text[i + 1] == "*":
            depth, j = 1, i + 2
            while j < n and depth:
                if text.startswith("/*", j):
                    depth += 1; j += 2
                elif text.startswith("*/", j):
                    depth -= 1; j += 2
                else:
                    j += 1
            for k in range(i, j):
                if out[k] != "\n":
                    out[k] = " "
            i = j
        elif c == '"' or (c in "rb" and re.match(r'(?:br|rb|r|b)#*"', text[i:i + 12]) and (i == 0 or not (text[i - 1].isalnum() or text[i - 1] == "_"))):
            m = re.match(r'(br|rb|r|b)?(#*)"', text[i:i + 12])
            prefix, hashes = m.group(1) or "", m.group(2)
            start = i + m.end()
            if "r" in prefix:
                end = text.find('"' + hashes, start)
                if end < 0:
                    end = n
                close = end + 1 + len(hashes)
            else:
                j = start
                while j < n and text[j] != '"':
                    j += 2 if text[j] == "\\" else 1
                end, close = j, j + 1
            for k in range(i, start - 1):
                out[k] = " "          # prefix letters / hashes
            for k in range(start, min(end, n)):
                if out[k] != "\n":
                    out[k] = "\x01"
            for k in range(end + 1, min(close, n)):
                out[k] = " "
            i = close
        elif c == "'":
            m = re.match(r"'(\\u\{[0-9a-fA-F]+\}|\\x[0-9a-fA-F]{2}|\\.|[^\\'])'", text[i:i + 14])
            if m:
                for k in range(i + 1, i + m.end() - 1):
                    out[k] = "\x01"
                i += m.end()
            else:
                i += 1
        else:
            i += 1
    return "".join(out)


OPEN, CLOSE = "([{", ")]}"


def match_close(mask, i):
    """index of the bracket closing the one at mask[i]"""
    depth = 0
    for j in range(i, len(mask)):
        ch = mask[j]
        if ch in OPEN:
            depth += 1
        elif ch in CLOSE:
            depth -= 1
            if depth == 0:
                return j
    return len(mask) - 1


def split_top(mask, a, b, sep=","):
    """top-level separator split of [a,b): list of (start,end).  `<`/`>` are not brackets (comparison
    operators), except for a turbofish `::<...>`."""
    parts, depth, start, j = [], 0, a, a
    while j < b:
        ch = mask[j]
        if ch in OPEN:
            depth += 1
        elif ch in CLOSE:
            depth -= 1
        elif ch == "<" and mask[j - 2:j] == "::":
            d = 1; j += 1
            while j < b and d:
                d += mask[j] == "<"; d -= mask[j] == ">"; j += 1
            continue
        elif ch == "|" and depth == 0 and sep == ",":
            # closure parameter list |a, b| : skip to the closing bar
            k = mask.find("|", j + 1, b)
            if k > 0 and re.match(r"^[\w\s,:&<>'()]*$", mask[j + 1:k]):
                j = k
        elif ch == sep and depth == 0:
            parts.append((start, j)); start = j + 1
        j += 1
    if mask[start:b].strip():
        parts.append((start, b))
    return parts


def expr_start(mask, end, lo=0):
    """start of the expression (method chain) that ends at mask[end-1]: walk back over balanced brackets until a
    `;`, `{`, `}`, `,`, `=` (not ==, =>, <=, >=, !=) or an unmatched opening bracket at depth 0"""
    depth, j = 0, end - 1
    while j >= lo:
        ch = mask[j]
        if ch in CLOSE:
            depth += 1
        elif ch in OPEN:
            if depth == 0:
                return j + 1
            depth -= 1
        elif depth == 0:
            if ch in ";,":
                return j + 1
            if ch == "}" :
                return j + 1
            if ch == "=" and mask[j - 1] not in "=!<>" and mask[j + 1:j + 2] not in ("=", ">"):
                return j + 1
            if ch == ">" and mask[j - 1] == "=":
                return j + 1
        j -= 1
    return lo


def blank(maskl, a, b):
    for k in range(a, b):
        if maskl[k] != "\n":
            maskl[k] = " "


def strip_tests(mask):
    """blank every item under #[cfg(test)] (modules, impls, fns, uses)"""
    ml = list(mask)
    for m in re.finditer(r"#\[cfg\(test\)\]", mask):
        j = m.end()
        while True:                                  # further attributes
            m2 = re.match(r"\s*#\[", mask[j:])
            if not m2:
                break
            j = match_close(mask, j + m2.end() - 1) + 1
        k = j
        while k < len(mask) and mask[k] not in "{;":
            if mask[k] in "([":
                k = match_close(mask, k)
            k += 1
        if k < len(mask) and mask[k] == "{":
            k = match_close(mask, k)
        blank(ml, m.start(), min(k + 1, len(mask)))
    return "".join(ml)


def norm_ws(s):
    return re.sub(r"\s+", " ", s).strip()


def lit_value(text, a, b):
    """value of the first string literal in text[a:b]; escapes kept readable"""
    s = text[a:b]
    m = re.search(r'(?:br|rb|r|b)?(#*)"', s)
    if not m:
        return norm_ws(s)
    j = m.end()
    if "r" in s[m.start():m.end()]:
        k = s.find('"' + m.group(1), j)
        k = len(s) if k < 0 else k
    else:
        k = j
        while k < len(s) and s[k] != '"':
            k += 2 if s[k] == "\\" else 1
    body = s[j:k]
    body = re.sub(r"\\\n\s*", "", body)                      # line continuation
    body = body.replace('\\"', '"').replace("\\n", " ").replace("\\t", " ").replace("\\\\", "\\")
    return norm_ws(body)


def line_of(text, pos):
    return text.count("\n", 0, pos) + 1


# ---------------------------------------------------------------------------------------------------------
class SrcFile:
    def __init__(self, root, crate, rel):
        self.crate, self.rel = crate, rel
        self.path = "crates/%s/src/%s" % (crate, rel)
        self.text = open(os.path.join(root, self.path), encoding="utf-8", errors="replace").read()
        self.mask = strip_tests(lex(self.text))
        self.fns = []            # (name, sig_start, body_start, body_end, params_text, ret_text)
        for m in re.finditer(r"\bfn\s+(\w+)\s*(<[^({]*>)?\s*\(", self.mask):
            p_open = m.end() - 1
            p_close = match_close(self.mask, p_open)
            k = p_close + 1
            while k < len(self.mask) and self.mask[k] not in "{;":
                if self.mask[k] in "([":
                    k = match_close(self.mask, k)
                k += 1
            if k >= len(self.mask) or self.mask[k] == ";":
                self.fns.append((m.group(1), m.start(), k, k, self.mask[p_open + 1:p_close], norm_ws(self.mask[p_close + 1:k])))
                continue
            e = match_close(self.mask, k)
            self.fns.append((m.group(1), m.start(), k, e, self.mask[p_open + 1:p_close], norm_ws(self.mask[p_close + 1:k])))

    def fn_at(self, pos):
        best = None
        for f in self.fns:
            if f[2] <= pos <= f[3] and (best is None or f[2] > best[2]):
                best = f
        return best


def crate_mod(crate):
    return crate.replace("-", "_")


# ---------------------------------------------------------------------------------------------------------
def parse_enums(files):
    """thiserror enums: qualified name -> {file, variants:[{name,line,attr,transparent,fields:[(name|idx,type)]}]}"""
    enums = {}
    for f in files:
        manual = set(re.findall(r"\bimpl\s+(?:std::)?(?:fmt::)?Display\s+for\s+(\w+Error)\b", f.mask))
        for m in re.finditer(r"#\[derive\(([^\]]*)\)\]", f.mask):
            is_thiserror = bool(re.search(r"\bError\b", m.group(1)))
            mname = re.match(r"(?:\s*#\[[^\]]*\])*\s*pub(?:\([^)]*\))?\s+enum\s+(\w+)", f.mask[m.end():])
            if not is_thiserror and not (mname and mname.group(1) in manual):
                continue
            j = m.end()
            while True:
                m2 = re.match(r"\s*#\[", f.mask[j:])
                if not m2:
                    break
                j = match_close(f.mask, j + m2.end() - 1) + 1
            m3 = re.match(r"\s*pub(?:\([^)]*\))?\s+enum\s+(\w+)[^{]*\{", f.mask[j:])
            if not m3:
                continue
            name = m3.group(1)
            b_open = j + m3.end() - 1
            b_close = match_close(f.mask, b_open)
            q = "%s::%s" % (crate_mod(f.crate), name)
            variants = []
            k = b_open + 1
            while k < b_close:
                attrs = []
                while True:
                    m4 = re.match(r"\s*#\[", f.mask[k:b_close])
                    if not m4:
                        break
                    a0 = k + m4.end() - 1
                    a1 = match_close(f.mask, a0)
                    attrs.append((a0, a1))
                    k = a1 + 1
                m5 = re.match(r"\s*(\w+)", f.mask[k:b_close])
                if not m5:
                    break
                vname, vpos = m5.group(1), k + m5.start(1)
                k += m5.end()
                fields = []
                m6 = re.match(r"\s*([({])", f.mask[k:b_close])
                if m6:
                    o = k + m6.end() - 1
                    c = match_close(f.mask, o)
                    for idx, (a, b) in enumerate(split_top(f.mask, o + 1, c)):
                        seg = re.sub(r"#\[[^\]]*\]", "", f.mask[a:b])
                        seg = norm_ws(seg)
                        if not seg:
                            continue
                        if f.mask[o] == "(":
                            fields.append((str(idx), re.sub(r"^pub(\([^)]*\))?\s+", "", seg)))
                        else:
                            mm = re.match(r"(?:pub(?:\([^)]*\))?\s+)?(\w+)\s*:\s*(.*)$", seg)
                            if mm:
                                fields.append((mm.group(1), mm.group(2)))
                    k = c + 1
                m7 = re.match(r"[^,]*,", f.mask[k:b_close])
                k = k + m7.end() if m7 else b_close
                attr, transparent, aline = None, False, line_of(f.text, vpos)
                for a0, a1 in attrs:
                    inner = f.mask[a0 + 1:a1]
                    m8 = re.match(r"\s*error\s*\(", inner)
                    if not m8:
                        continue
                    aline = line_of(f.text, a0)
                    if re.match(r"\s*error\s*\(\s*transparent\s*\)", inner):
                        transparent, attr = True, "{0}"
                    else:
                        po = a0 + 1 + m8.end() - 1
                        pc = match_close(f.mask, po)
                        parts = split_top(f.mask, po + 1, pc)
                        attr = lit_value(f.text, parts[0][0], parts[0][1])
                        extra = [norm_ws(f.text[a:b]) for a, b in parts[1:]]
                        if extra:
                            attr += " <<" + ", ".join(extra) + ">>"
                if attr is None and not is_thiserror:
                    variants.append({"name": vname, "line": aline, "attr": None, "transparent": False, "fields": fields})
                    continue
                if attr is None:
                    fail("variant %s::%s in %s has no #[error(...)] attribute" % (q, vname, f.path))
                variants.append({"name": vname, "line": aline, "attr": attr, "transparent": transparent, "fields": fields})
            if not variants:
                fail("error enum %s in %s: no variants parsed" % (q, f.path))
            enums[q] = {"file": f.path, "variants": variants, "short": name, "crate": f.crate}
    return enums


def fmt_placeholders(fmt):
    """names / indices referenced by {..} in a format string; '' for positional {}"""
    res = []
    for m in re.finditer(r"\{\{|\}\}|\{([^{}]*)\}", fmt):
        if m.group(1) is None:
            continue
        res.append(m.group(1).split(":")[0].strip())
    return res


# ---------------------------------------------------------------------------------------------------------
class Extractor:
    def __init__(self, root):
        self.root = root
        self.files = []
        for c in CRATES:
            base = os.path.join(root, "crates", c, "src")
            if not os.path.isdir(base):
                fail("crate source directory missing: " + base)
            for dp, dn, fn in sorted(os.walk(base)):
                dn.sort()
                if "/tests" in dp[len(base):] or "/examples" in dp[len(base):]:
                    continue
                for x in sorted(fn):
                    if not x.endswith(".rs") or x in ("test_util.rs", "test_utils.rs", "tests.rs"):
                        continue
                    self.files.append(SrcFile(root, c, os.path.relpath(os.path.join(dp, x), base)))
        self.modules = {}
        for f in self.files:
            parts = f.rel[:-3].split("/")
            self.modules.setdefault(f.crate, set()).update(p for p in parts if p not in ("mod", "lib"))
        self.enums = parse_enums(self.files)
        self.sensitive_records = self.find_sensitive_records()
        self.fn_rets = {}
        for f in self.files:
            for fn in f.fns:
                self.fn_rets.setdefault(fn[0], set()).add(fn[5])
        self.type_names = set()
        for f in self.files:
            self.type_names |= set(re.findall(r"\b(?:struct|enum|trait|type)\s+(\w+)", f.mask))
        for need in ("mdk_core::Error", "mdk_storage_traits::MdkStorageError", "mdk_sqlite_storage::Error", "mdk_storage_traits::GroupError"):
            if need not in self.enums:
                fail("error enum %s not found (source layout changed?)" % need)
        # function table: name -> set of error-type nodes
        self.fn_err = {}
        self.string_err_fns = set()
        for f in self.files:
            for (name, s0, b0, b1, params, ret) in f.fns:
                node = self.ret_error_node(f, ret, name)
                if node:
                    self.fn_err.setdefault(name, set()).add(node)
                    if node.startswith("fn:"):
                        self.string_err_fns.add((f.path, name))
        self.sites = []
        self.unresolved = []

    # ----- types
    def enum_by_short(self, f, short):
        """resolve a type name written in file f to a qualified mdk error enum"""
        short = short.strip().lstrip("&").strip()
        short = re.sub(r"^(crate|super|self)::", "", short)
        last = short.split("::")[-1]
        own = "%s::%s" % (crate_mod(f.crate), last)
        if own in self.enums and ("::" not in short or short.startswith(("error::", "types::", "groups::", "messages::", "welcomes::")) or True):
            # a path that names another crate explicitly wins below
            pass
        m = re.match(r"(mdk_\w+)::", short)
        if m:
            for q in self.enums:
                if q.startswith(m.group(1) + "::") and q.endswith("::" + last):
                    return q
        if short.startswith(tuple(c + "::" for c in THIRD_PARTY_CRATES)):
            return None
        if "::" in short and short.split("::")[0] not in self.modules.get(f.crate, set()):
            return None                      # key::Error, event::Error, nip44::Error ...: a module of another crate
        if own in self.enums:
            return own
        cands = [q for q, e in self.enums.items() if e["short"] == last and last != "Error"]
        if len(cands) == 1:
            return cands[0]
        if last == "Error" and f.crate == "mdk-memory-storage":
            return None
        return None

    def ret_error_node(self, f, ret, fname):
        if not ret.startswith("->"):
            return None
        r = ret[2:].strip()
        r = re.sub(r"\bwhere\b.*$", "", r).strip()
        m = re.match(r"(?:std::result::|core::result::)?Result\s*<(.*)>$", r)
        if not m:
            return None
        parts = [x.strip() for x in self.split_generic(m.group(1))]
        if len(parts) == 1:
            # crate-local alias `Result<T>`
            own = "%s::Error" % crate_mod(f.crate)
            return own if own in self.enums else None
        et = parts[-1]
        if et == "String" or et == "&'static str" or et == "&str":
            return "fn:" + fname
        if et in ("Self::Error", "S::Error", "Storage::Error"):
            return "mdk_storage_traits::MdkStorageError"
        return self.enum_by_short(f, et) or "thirdparty:" + et

    @staticmethod
    def split_generic(s):
        parts, depth, cur = [], 0, ""
        for ch in s:
            if ch in "<([":
                depth += 1
            elif ch in ">)]":
                depth -= 1
            if ch == "," and depth == 0:
                parts.append(cur); cur = ""
            else:
                cur += ch
        if cur.strip():
            parts.append(cur)
        return parts

    def find_sensitive_records(self):
        """structs / enums of the four crates whose derived Debug output contains a group id or secret: they derive Debug
        (no hand-written impl), and some field's type is GroupId / Secret / EncryptionConfig or another such record (fixpoint)"""
        manual, decls = set(), {}
        for f in self.files:
            manual |= set(re.findall(r"\bimpl(?:\s*<[^>]*>)?\s+(?:std::|core::)?(?:fmt::)?Debug\s+for\s+(\w+)", f.mask))
            for m in re.finditer(r"#\[derive\(([^\]]*)\)\]", f.mask):
                if not re.search(r"\bDebug\b", m.group(1)):
                    continue
                md = re.match(r"(?:\s*#\[[^\]]*\])*\s*pub(?:\([^)]*\))?\s+(?:struct|enum)\s+(\w+)[^{;(]*\{", f.mask[m.end():])
                if not md:
                    continue
                o = m.end() + md.end() - 1
                c = match_close(f.mask, o)
                decls[md.group(1)] = f.mask[o + 1:c]
        base = re.compile(r"\b(GroupId|Secret|EncryptionConfig)\b")
        sens = {n for n, body in decls.items() if n not in manual and base.search(body)}
        changed = True
        while changed:
            changed = False
            for n, body in decls.items():
                if n in sens or n in manual:
                    continue
                if any(re.search(r"\b%s\b" % re.escape(x), body) for x in sens):
                    sens.add(n); changed = True
        return sens

    def ret_class(self, f, callee):
        """class of the value a call to `callee` yields, from the declared return types of every function of that name"""
        for ret in self.fn_rets.get(callee, ()):
            names = set(re.findall(r"\b[A-Z]\w+\b", ret))
            if names & self.sensitive_records or re.search(r"\b(GroupId|Secret)\b", ret):
                return "Sensitive"
        return None

    def type_class(self, f, ty):
        """class of a value from its declared type (error-enum fields, fn parameters)"""
        t = ty.strip()
        t = re.sub(r"^#\[\w+\]\s*", "", t)
        t = re.sub(r"^&\s*('\w+\s+)?(mut\s+)?", "", t)
        mb = re.match(r"(?:Box|Arc|Rc|Option)\s*<(.*)>$", t)
        if mb:
            return self.type_class(f, mb.group(1))
        if re.match(r"^(u8|u16|u32|u64|u128|usize|i8|i16|i32|i64|i128|isize|bool|f32|f64|char|Kind|Timestamp|EventId|PublicKey|RelayUrl)$", t):
            return "Benign"
        if re.search(r"\bGroupId\b", t):
            return "Sensitive"
        if re.search(r"\bSecret\b|\bEncryptionConfig\b", t):
            return "Sensitive"
        mrec = re.match(r"^(?:\w+::)*(\w+)\b", t)
        if mrec and mrec.group(1) in self.sensitive_records:
            return "Sensitive"            # a record whose derived Debug output contains a group id / secret
        mv = re.match(r"^(?:Vec|BTreeSet|HashSet|VecDeque)\s*<(.*)>$", t) or re.match(r"^\[(.*)\]$", t)
        if mv and self.type_class(f, mv.group(1)) == "Sensitive":
            return "Sensitive"
        q = self.enum_by_short(f, t) if re.search(r"Error\b", t) else None
        if q:
            return ("OpaqueMdk", q)
        if re.search(r"Error\b", t) or t.startswith(tuple(c + "::" for c in THIRD_PARTY_CRATES)):
            return "ThirdParty"
        return None            # decided by name / constructor sites

    # ----- expression classification
    def classify(self, f, pos, expr, depth=0, sigil=""):
        """-> list of (expr_text, class) where class is 'Benign'|'Sensitive'|'ThirdParty'|('OpaqueMdk', node)"""
        e = norm_ws(expr)
        e0 = e
        # strip wrappers that do not change what is printed
        for _ in range(6):
            e2 = re.sub(r"^(&\s*mut\s+|&|\*|%|\?)\s*", "", e)
            e2 = re.sub(r"(\.to_string\(\)|\.clone\(\)|\.as_str\(\)|\.as_ref\(\)|\.to_owned\(\)|\.into\(\)|\.to_hex\(\)|\.as_slice\(\)|\.to_vec\(\)|\.as_bytes\(\)|\.unwrap\(\)|\.display\(\))$", "", e2)
            m = re.match(r"^(?:Some|Box::new|String::from|hex::encode|hex::encode_upper|Err|Ok)\s*\((.*)\)$", e2)
            if m and self.balanced(m.group(1)):
                if e2.startswith("hex::encode") and re.search(r"group|gid", m.group(1), re.I):
                    return [(e0, "Sensitive")]
                e2 = m.group(1).strip()
            if e2.startswith("(") and e2.endswith(")") and self.balanced(e2[1:-1]):
                e2 = e2[1:-1].strip()
            if e2 == e:
                break
            e = e2
        if re.match(r'^(?:br|rb|r|b)?#*"', e) or e.startswith("\x01"):
            return []                                          # string literal: static text
        mc = re.match(r"^((?:\w+::)*)(\w+Error|Error)::(\w+)\b", e)
        if mc:
            q = self.enum_by_short(f, mc.group(1) + mc.group(2))
            if q:
                return [(e0, ("OpaqueMdk", q))]
        mf = re.match(r"^(?:std::)?format!\s*\((.*)\)$", e, re.S)
        if mf and depth < 4:
            return self.classify_format_text(f, pos, mf.group(1), depth + 1)
        # what the expression denotes is decided by its head: arguments of calls, index expressions and closure
        # bodies are dropped (`storage.find_epoch(&group_id)` is an epoch, not a group id); wrappers that pass their
        # argument through (hex::encode, Some, to_string ...) were removed above
        head = self.head_of(e)
        for table in (BENIGN_FIRST, SENSITIVE):
            for cls, _why, rx in table:
                if re.search(rx, head):
                    return [(e0, cls)]
        # local resolution of plain identifiers
        if re.match(r"^[A-Za-z_]\w*$", e) and depth < 4:
            r = self.resolve_ident(f, pos, e, depth)
            if r is not None:
                return [(e0 if len(r) == 1 else x, c) for x, c in r] if r else []
        # failure_reason read back from storage
        if re.search(r"\bfailure_reason\b", e):
            return [(e0, ("OpaqueMdk", FAILURE_REASON_NODE))]
        # a call to a function of the four crates that returns a string built by format!
        mcall = re.search(r"(\w+)\s*\((?:[^()]|\([^()]*\))*\)\s*\??$", e)
        if mcall and ("fn:" + mcall.group(1)) in {n for s in self.fn_err.values() for n in s}:
            pass
        if ERROR_VAR.match(e):
            self.unresolved.append("%s:%d %s" % (f.path, line_of(f.text, pos), e))
            return [(e0, c) for c in self.fallback_error_classes(f)]
        for cls, _why, rx in BENIGN:
            if re.search(rx, e, re.I):
                return [(e0, cls)]
        return [(e0, "Benign")]

    @staticmethod
    def head_of(e):
        out, depth = [], 0
        for ch in e:
            if ch in "([":
                if depth == 0:
                    out.append(ch)
                depth += 1
            elif ch in ")]":
                depth -= 1
                if depth == 0:
                    out.append(ch)
            elif depth == 0:
                out.append(ch)
        return "".join(out)

    @staticmethod
    def balanced(s):
        d = 0
        for ch in s:
            if ch in OPEN:
                d += 1
            elif ch in CLOSE:
                d -= 1
                if d < 0:
                    return False
        return d == 0

    def fallback_error_classes(self, f):
        """an error value whose origin could not be resolved: every mdk enum visible in that crate, plus third party"""
        vis = VISIBLE[f.crate]
        res = [("OpaqueMdk", q) for q in sorted(self.enums) if q.startswith(tuple(vis))]
        return res + ["ThirdParty"]

    def node_classes(self, nodes):
        res = []
        for n in sorted(nodes):
            if n.startswith("thirdparty:"):
                if "ThirdParty" not in res:
                    res.append("ThirdParty")
            else:
                res.append(("OpaqueMdk", n))
        return res

    def call_error_classes(self, f, expr_mask):
        """classes of the Err value of the expression ending at a `.map_err(` / matched by `Err(x)`: decided by the
        last function/method name called in it"""
        names = re.findall(r"(\w+)\s*(?:::<[^>]*>)?\s*\(", expr_mask)
        names = [n for n in names if n not in ("Some", "Ok", "Err", "map", "and_then", "ok_or", "ok_or_else", "map_err", "unwrap_or", "iter", "into_iter",
                                               "as_ref", "as_slice", "as_bytes", "clone", "to_string", "borrow", "unwrap", "expect", "as_deref", "as_mut",
                                               "storage", "inner", "transpose", "cloned", "copied", "filter", "into", "context", "as_str")]
        for n in reversed(names):
            qual = re.findall(r"([A-Za-z_]\w*)\s*::\s*%s\s*(?:::<[^>]*>)?\s*\(" % re.escape(n), expr_mask)
            if qual and qual[-1][0].isupper() and qual[-1] != "Self" and qual[-1] not in self.type_names:
                return ["ThirdParty"]      # Type::name(..) of a type not defined in the four crates
            if qual and qual[-1] in THIRD_PARTY_CRATES:
                return ["ThirdParty"]
            if n in self.fn_err:
                vis = VISIBLE[f.crate]
                nodes = {x for x in self.fn_err[n] if x.startswith(("fn:", "thirdparty:")) or x.startswith(tuple(vis))}
                if nodes:
                    return self.node_classes(nodes)
            return ["ThirdParty"]          # the last real call is not a function of the four crates
        return None

    def resolve_ident(self, f, pos, ident, depth):
        fn = f.fn_at(pos)
        if not fn:
            return None
        name, s0, b0, b1, params, ret = fn
        body = f.mask[b0:pos]
        best = None            # (position, kind, payload)
        for m in re.finditer(r"\blet\s+(?:mut\s+)?%s\s*(?::([^=;]+))?=(?!=)" % re.escape(ident), body):
            best = (m.end(), "let", m.group(1)) if best is None or m.end() > best[0] else best
        for m in re.finditer(r"\|\s*(?:mut\s+)?%s\s*(?::[^|]*)?\|" % re.escape(ident), body):
            if best is None or m.start() > best[0]:
                best = (m.start(), "closure", None)
        for m in re.finditer(r"\bErr\s*\(\s*(?:ref\s+)?%s\s*\)\s*(=>|=(?!=))" % re.escape(ident), body):
            if best is None or m.start() > best[0]:
                best = (m.start(), "arm" if m.group(1) == "=>" else "iflet", m.end())
        for m in re.finditer(r"\bfor\s+(?:\([^)]*\b%s\b[^)]*\)|%s)\s+in\b" % (re.escape(ident), re.escape(ident)), body):
            if best is None or m.start() > best[0]:
                best = (m.start(), "for", None)
        # a pattern binding `Some(x)` / `Ok(x)` / `Ok(Some(x))`: the value comes out of the call that is matched on
        for m in re.finditer(r"\b(?:Ok\s*\(\s*)?(?:Some|Ok)\s*\(\s*(?:ref\s+|mut\s+)?%s\s*\)\s*\)?\s*(=>|=(?!=))" % re.escape(ident), body):
            if best is None or m.start() > best[0]:
                best = (m.start(), "pat", (m.group(1), m.end()))
        if best is None:
            mp = re.search(r"(?:^|,)\s*(?:mut\s+)?%s\s*:\s*([^,]+(?:<[^>]*>)?[^,]*)" % re.escape(ident), params)
            if mp:
                tc = self.type_class(f, mp.group(1))
                if tc:
                    return [(ident, tc)]
            return None
        at, kind, extra = best
        abs_at = b0 + at
        if kind == "let" and extra and self.type_class(f, extra) is not None:
            return [(ident, self.type_class(f, extra))]
        if kind == "pat":
            arrow, end = extra
            if arrow == "=>":
                # scrutinee: the `match <expr> {` that encloses the arm
                pre = f.mask[b0:abs_at]
                mm = None
                for mm in re.finditer(r"\bmatch\b", pre):
                    pass
                scrut = pre[mm.end():] if mm else ""
                scrut = scrut[:scrut.find("{")] if "{" in scrut else scrut
            else:
                k = b0 + end
                k0 = k
                while k < len(f.mask) and f.mask[k] not in "{;":
                    if f.mask[k] in "([":
                        k = match_close(f.mask, k)
                    k += 1
                scrut = f.mask[k0:k]
            calls = re.findall(r"(\w+)\s*\(", self.head_of(scrut))
            for callee in reversed(calls):
                if callee in ("map_err", "ok_or", "ok_or_else", "map", "and_then", "Some", "Ok", "Err", "to_string", "unwrap_or_default"):
                    continue
                rc = self.ret_class(f, callee)
                if rc:
                    return [(ident + " <- " + callee + "(..)", rc)]
                break
            return None
        if kind == "let":
            # rhs up to the terminating ';' at depth 0
            k = abs_at
            while k < len(f.mask) and f.mask[k] != ";":
                if f.mask[k] in OPEN:
                    k = match_close(f.mask, k)
                k += 1
            rhs = f.text[abs_at:k]
            rhs_mask = f.mask[abs_at:k]
            rn = norm_ws(rhs)
            if re.match(r"^(?:std::)?format!\s*\(", rn) or re.match(r'^"', rn):
                return self.classify(f, abs_at, rhs, depth + 1)
            if re.match(r"^match\b|^if\b", rn):
                # every format!/literal produced in the arms contributes
                res = []
                for m in re.finditer(r"format!\s*\(", rhs_mask):
                    o = abs_at + m.end() - 1
                    c = match_close(f.mask, o)
                    res += self.classify_format_text(f, o, f.text[o + 1:c], depth + 1, mask=f.mask[o + 1:c], base=o + 1)
                return res or None
            # a call whose declared return type is a record that prints ids / secrets
            calls = [c for c in re.findall(r"(\w+)\s*\(", self.head_of(rhs_mask)) if c not in ("map_err", "ok_or", "ok_or_else", "map", "and_then", "Some", "Ok", "Err", "to_string", "unwrap_or_default")]
            if calls and self.ret_class(f, calls[-1]) and not re.search(r"\)\s*\??\s*\.\s*\w+\s*$", norm_ws(rhs_mask)):
                return [(ident + " <- " + calls[-1] + "(..)", self.ret_class(f, calls[-1]))]
            # other right-hand sides: classify the expression text itself (names decide)
            r = self.classify(f, abs_at, rhs, depth + 1)
            return [(ident + " := " + norm_ws(rhs)[:60], c) for _x, c in r] if r else []
        if kind == "closure":
            # receiver chain before `.map_err(|e|` / `.unwrap_or_else(|e|` ...
            pre = f.mask[b0:abs_at]
            mm = re.search(r"\.\s*(map_err|unwrap_or_else|or_else|inspect_err)\s*\(\s*$", pre)
            if mm:
                chain = pre[expr_start(pre, mm.start()):mm.start()]
                cls = self.call_error_classes(f, chain)
                if cls:
                    return [(ident, c) for c in cls]
            return None
        if kind in ("arm", "iflet"):
            if kind == "iflet":
                k = b0 + extra
                j = k
                while j < len(f.mask) and f.mask[j] != "{":
                    if f.mask[j] in "([":
                        j = match_close(f.mask, j)
                    j += 1
                cls = self.call_error_classes(f, f.mask[k:j])
            else:
                # find the `match <scrutinee> {` whose block contains this arm
                cls = None
                pre = f.mask[b0:abs_at]
                for m in reversed(list(re.finditer(r"\bmatch\b", pre))):
                    k = b0 + m.end()
                    j = k
                    while j < len(f.mask) and f.mask[j] != "{":
                        if f.mask[j] in "([":
                            j = match_close(f.mask, j)
                        j += 1
                    if j < len(f.mask) and j < abs_at <= match_close(f.mask, j):
                        cls = self.call_error_classes(f, f.mask[k:j])
                        break
            if cls:
                return [(ident, c) for c in cls]
            return None
        return None

    def classify_format_text(self, f, pos, inner_text, depth, mask=None, base=None):
        """inner text of a format!-like macro: "<fmt>", args... -> flattened classified args"""
        if mask is None:
            mask = strip_tests(lex(inner_text))
            base = None
        parts = split_top(mask, 0, len(mask))
        if not parts:
            return []
        res = []
        fmt = lit_value(inner_text, parts[0][0], parts[0][1]) if mask[parts[0][0]:parts[0][1]].strip().startswith('"') else ""
        used = set()
        for a, b in parts[1:]:
            seg = inner_text[a:b]
            mn = re.match(r"\s*(\w+)\s*=(?!=)\s*(.*)$", seg, re.S)
            if mn:
                used.add(mn.group(1)); seg = mn.group(2)
            res += self.classify(f, pos if base is None else base + a, seg, depth)
        for ph in fmt_placeholders(fmt):
            if ph and not ph.isdigit() and ph not in used and re.match(r"^[A-Za-z_]\w*$", ph):
                used.add(ph)
                res += self.classify(f, pos, ph, depth)
        return res

    # ----- sinks
    def add(self, f, pos, kind, owner, fmt, args, fn=None):
        fnn = fn or (f.fn_at(pos) or ("",))[0]
        seen, out = set(), []
        for x, c in args:
            key = (x, c)
            if key in seen:
                continue
            seen.add(key); out.append((x, c))
        self.sites.append({"file": f.path, "line": line_of(f.text, pos), "kind": kind, "owner": owner, "fn": fnn,
                           "fmt": fmt, "args": out})

    def log_sites(self, f):
        for m in re.finditer(r"(?<![\w:!])(?:tracing::)?(%s)!\s*\(" % "|".join(LEVELS), f.mask):
            o = m.end() - 1
            c = match_close(f.mask, o)
            parts = split_top(f.mask, o + 1, c)
            fmt, args, seen_fmt = "", [], False
            for a, b in parts:
                seg_m, seg = f.mask[a:b], f.text[a:b]
                st = seg_m.strip()
                if not seen_fmt and re.match(r"^(target|parent|name)\s*:", st):
                    continue
                if not seen_fmt and st.startswith('"'):
                    seen_fmt = True
                    fmt = lit_value(f.text, a, b)
                    for ph in fmt_placeholders(fmt):
                        if ph and not ph.isdigit() and re.match(r"^[A-Za-z_]\w*$", ph):
                            args += self.classify(f, a, ph)
                    continue
                mn = re.match(r"\s*([\w.]+)\s*=(?!=)\s*(.*)$", seg, re.S)
                if mn and re.match(r"\s*[\w.]+\s*=(?!=)", seg_m):
                    seg = mn.group(2)
                args += self.classify(f, a, seg)
            self.add(f, m.start(), "log", "", ("%s: " % m.group(1)) + fmt, args)

    def enum_sites(self):
        for q, en in sorted(self.enums.items()):
            f = next(x for x in self.files if x.path == en["file"])
            for v in en["variants"]:
                if v["attr"] is None:
                    continue                     # Display written by hand: see fmt_impl_sites
                fields = dict(v["fields"])
                args = []
                phs = fmt_placeholders(v["attr"].split(" <<")[0])
                if " <<" in v["attr"]:
                    # explicit extra arguments in the attribute: .0 / .field / expressions
                    for x in v["attr"].split(" <<")[1].rstrip(">").split(","):
                        x = x.strip()
                        mm = re.match(r"^\.(\w+)", x)
                        phs.append(mm.group(1) if mm else x)
                for ph in phs:
                    if ph == "":
                        continue
                    if ph in fields:
                        ty = fields[ph]
                        tc = self.type_class(f, ty)
                        label = "%s: %s" % (ph, ty)
                        if tc is None:
                            # by field name (String / integer fields): names decide; the text placed into a String
                            # field is accounted for at the constructor sites (error-format sinks of this enum)
                            r = self.classify_name_only(ph if not ph.isdigit() else "")
                            tc = r
                        args.append((label, tc))
                    else:
                        args += self.classify(f, 0, ph)
                pos = self.pos_of_line(f, v["line"])
                self.add(f, pos, "error-attr", q, "%s::%s: %s" % (en["short"], v["name"], v["attr"]), args, fn=v["name"])

    @staticmethod
    def classify_name_only(name):
        if not name:
            return "Benign"
        for table in (BENIGN_FIRST, SENSITIVE):
            for cls, _why, rx in table:
                if re.search(rx, name):
                    return cls
        return "Benign"

    @staticmethod
    def pos_of_line(f, line):
        pos = 0
        for _ in range(line - 1):
            pos = f.text.find("\n", pos) + 1
        return pos

    def ctor_sites(self, f):
        shorts = {}
        for q, en in self.enums.items():
            shorts.setdefault(en["short"], []).append(q)
        # impl blocks: `impl ... for <Enum>` / `impl <Enum>` give the meaning of Self
        impl_self = []
        for m in re.finditer(r"\bimpl\b[^{;]*\{", f.mask):
            head = f.mask[m.start():m.end() - 1]
            mt = re.search(r"\bfor\s+([\w:]+)\s*(?:<[^>]*>)?\s*(?:where\b.*)?$", head, re.S) or re.search(r"\bimpl\s*(?:<[^>]*>)?\s*([\w:]+)", head)
            if mt:
                q = self.enum_by_short(f, mt.group(1)) if mt.group(1).split("::")[-1] in shorts else None
                if q:
                    impl_self.append((m.end() - 1, match_close(f.mask, m.end() - 1), q))
        for m in re.finditer(r"(?<![\w:])((?:\w+::)*)(\w+)::(\w+)\s*([({])", f.mask):
            prefix, ename, vname, br = m.group(1), m.group(2), m.group(3), m.group(4)
            if ename == "Self":
                q = next((q for a, b, q in impl_self if a <= m.start() <= b), None)
            elif ename in shorts:
                q = self.enum_by_short(f, prefix + ename)
            else:
                q = None
            if not q:
                continue
            var = next((v for v in self.enums[q]["variants"] if v["name"] == vname), None)
            if not var:
                continue
            o = m.end() - 1
            c = match_close(f.mask, o)
            # pattern position (match arm / if let / matches!) : followed by `=>`, `|`, `=`, `if`, or inside a pattern
            after = f.mask[c + 1:c + 40].lstrip()
            before = f.mask[max(0, m.start() - 40):m.start()]
            if after.startswith(("=>", "|", "if ")) or re.match(r"^=(?!=)", after) or re.search(r"(\bErr\s*\(\s*|\|\s*|matches!\s*\([^;]*,\s*|&)$", before) and (after.startswith((")", "=>", "|")) and re.match(r"^\)?\s*(=>|\||=(?!=)|if\b|\))", after) and self.is_pattern(f, m.start(), c)):
                continue
            if self.is_pattern(f, m.start(), c):
                continue
            if br == "{":
                inner = f.mask[o + 1:c]
                if not re.search(r"\w+\s*(:|,|$)", inner) or re.match(r"\s*\.\.\s*$", inner):
                    continue
            args, fmt = [], ""
            for a, b in split_top(f.mask, o + 1, c):
                seg, seg_m = f.text[a:b], f.mask[a:b]
                if br == "{":
                    mm = re.match(r"\s*(\w+)\s*:(?!:)", seg_m)
                    if mm:
                        seg, seg_m, a = seg[mm.end():], seg_m[mm.end():], a + mm.end()
                mf = re.match(r"\s*(?:std::)?format!\s*\(", seg_m)
                if mf:
                    fo = a + mf.end() - 1
                    fc = match_close(f.mask, fo)
                    ps = split_top(f.mask, fo + 1, fc)
                    if ps and f.mask[ps[0][0]:ps[0][1]].strip().startswith('"'):
                        fmt = lit_value(f.text, ps[0][0], ps[0][1])
                elif seg_m.strip().startswith('"'):
                    fmt = lit_value(f.text, a, b)
                args += self.classify(f, a, seg)
            self.add(f, m.start(), "error-format", q, "%s::%s(%s)" % (self.enums[q]["short"], vname, fmt), args)
        # path shorthand: .map_err(Error::Variant)
        for m in re.finditer(r"\.\s*map_err\s*\(\s*((?:\w+::)*)(\w+)::(\w+)\s*\)", f.mask):
            ename, vname = m.group(2), m.group(3)
            q = self.enum_by_short(f, m.group(1) + ename) if ename in shorts else None
            if not q or not any(v["name"] == vname for v in self.enums[q]["variants"]):
                continue
            pre = f.mask[:m.start()]
            cls = self.call_error_classes(f, pre[expr_start(pre, len(pre)):]) or ["ThirdParty"]
            self.add(f, m.start(), "error-format", q, "%s::%s(<map_err>)" % (self.enums[q]["short"], vname), [("<err of receiver>", c) for c in cls])

    def is_pattern(self, f, a, c):
        """is the constructor-looking text f.mask[a..c] in pattern position?"""
        after = f.mask[c + 1:c + 60].lstrip()
        if re.match(r"^(=>|\|(?!\|)|if\b)", after):
            return True
        if re.match(r"^=(?![=>])", after):
            return True
        # inside `Err( ... ) =>`, `Some(...) =>`, matches!(x, PATTERN)
        d, k = 0, c + 1
        while k < len(f.mask) and k < c + 200:
            ch = f.mask[k]
            if ch in ")":
                nxt = f.mask[k + 1:k + 40].lstrip()
                if re.match(r"^(=>|\|(?!\|)|if\b)", nxt) or re.match(r"^=(?![=>])", nxt):
                    return True
                k += 1
                continue
            if ch in " \n\t":
                k += 1
                continue
            break
        before = f.mask[max(0, a - 80):a]
        if re.search(r"matches!\s*\([^;{}]*,\s*(\w+\s*\(\s*)*$", before):
            return True
        if re.search(r"(\|\s*|=>\s*\{?\s*)$", before) and False:
            return True
        if re.search(r"\|\s*$", before) and not re.search(r"\|[\w\s,:&]*\|\s*$", before):
            return True
        return False

    def failure_reason_sites(self, f):
        for m in re.finditer(r"\bfailure_reason\s*(?::(?!:)|=(?!=))\s*", f.mask):
            k = m.end()
            j = k
            while j < len(f.mask) and f.mask[j] not in ",;}":
                if f.mask[j] in OPEN:
                    j = match_close(f.mask, j)
                j += 1
            seg_m = f.mask[k:j].strip()
            if not seg_m or seg_m.startswith("Option<") or seg_m == "None":
                continue
            fn = f.fn_at(m.start())
            if not fn:
                continue                     # struct field declaration
            args = self.classify(f, k, f.text[k:j])
            self.add(f, m.start(), "error-format", FAILURE_REASON_NODE, "failure_reason = " + norm_ws(f.text[k:j])[:80].replace("\x01", ""), args)
        # create_processed_message_record(.., Some(reason)) style helpers: the parameter named failure_reason
        for (name, s0, b0, b1, params, ret) in f.fns:
            pnames = [norm_ws(p).split(":")[0].strip() for p in self.split_generic(params)]
            if "failure_reason" in pnames and b1 > b0:
                idx = pnames.index("failure_reason") - (1 if pnames and pnames[0] in ("&self", "self", "&mut self") else 0)
                for g in self.files:
                    for mm in re.finditer(r"\b%s\s*\(" % re.escape(name), g.mask):
                        if g is f and s0 <= mm.start() <= b0:
                            continue
                        o = mm.end() - 1
                        c = match_close(g.mask, o)
                        ps = split_top(g.mask, o + 1, c)
                        if idx < len(ps):
                            a, b = ps[idx]
                            if g.mask[a:b].strip() in ("None", ""):
                                continue
                            args = self.classify(g, a, g.text[a:b])
                            self.add(g, mm.start(), "error-format", FAILURE_REASON_NODE, "failure_reason <- %s(..)" % name, args)

    def fmt_impl_sites(self, f):
        """hand-written Display / Debug impls: write!(f, ..) and .field("name", expr) are sinks owned by the type"""
        for m in re.finditer(r"\bimpl\b\s*(?:<[^>]*>)?\s*(?:std::)?(?:fmt::)?(Display|Debug)\s+for\s+(\w+)[^{;]*\{", f.mask):
            which, ty = m.group(1), m.group(2)
            o = m.end() - 1
            c = match_close(f.mask, o)
            owner = "%s::%s" % (crate_mod(f.crate), ty)
            kind = "display-impl" if which == "Display" else "debug-impl"
            n = 0
            for w in re.finditer(r"\b(write|writeln)!\s*\(", f.mask[o:c]):
                wo = o + w.end() - 1
                wc = match_close(f.mask, wo)
                ps = split_top(f.mask, wo + 1, wc)
                if len(ps) < 2:
                    continue
                fmt = lit_value(f.text, ps[1][0], ps[1][1])
                a0 = ps[1][0]
                args = self.classify_format_text(f, a0, f.text[a0:wc], 1, mask=f.mask[a0:wc], base=a0)
                self.add(f, o + w.start(), kind, owner, "%s for %s: %s" % (which, ty, fmt), args, fn=ty)
                n += 1
            for w in re.finditer(r"\.\s*field\s*\(", f.mask[o:c]):
                wo = o + w.end() - 1
                wc = match_close(f.mask, wo)
                ps = split_top(f.mask, wo + 1, wc)
                if len(ps) != 2:
                    continue
                fname = lit_value(f.text, ps[0][0], ps[0][1])
                args = self.classify(f, ps[1][0], f.text[ps[1][0]:ps[1][1]])
                self.add(f, o + w.start(), kind, owner, "%s for %s: .field(%s)" % (which, ty, fname), args, fn=ty)
                n += 1
            for w in re.finditer(r"\.\s*write_str\s*\(", f.mask[o:c]):
                wo = o + w.end() - 1
                wc = match_close(f.mask, wo)
                args = self.classify(f, wo + 1, f.text[wo + 1:wc])
                self.add(f, o + w.start(), kind, owner, "%s for %s: write_str" % (which, ty), args, fn=ty)
                n += 1
            if n == 0:
                self.add(f, m.start(), kind, owner, "%s for %s: (no format sink recognised)" % (which, ty), [], fn=ty)

    def string_fn_sites(self, f):
        for (name, s0, b0, b1, params, ret) in f.fns:
            if (f.path, name) not in self.string_err_fns or b1 <= b0:
                continue
            for m in re.finditer(r"(?<![\w:])(?:std::)?format!\s*\(", f.mask[b0:b1]):
                o = b0 + m.end() - 1
                c = match_close(f.mask, o)
                ps = split_top(f.mask, o + 1, c)
                fmt = lit_value(f.text, ps[0][0], ps[0][1]) if ps else ""
                args = self.classify_format_text(f, o, f.text[o + 1:c], 1, mask=f.mask[o + 1:c], base=o + 1)
                self.add(f, b0 + m.start(), "error-format", "fn:" + name, "fn %s: %s" % (name, fmt), args)

    def run(self):
        self.enum_sites()
        for f in self.files:
            self.log_sites(f)
            self.ctor_sites(f)
            self.failure_reason_sites(f)
            self.fmt_impl_sites(f)
            self.string_fn_sites(f)
        self.sites.sort(key=lambda s: (s["file"], s["line"], s["kind"], s["fmt"]))
        n_log = sum(1 for s in self.sites if s["kind"] == "log")
        n_attr = sum(1 for s in self.sites if s["kind"] == "error-attr")
        if n_log < 40 or n_attr < 80:
            fail("only %d log sinks and %d error attributes found - the source no longer has the expected shape" % (n_log, n_attr))
        return self.sites


# ---------------------------------------------------------------------------------------------------------
def extract(root="/repo"):
    ex = Extractor(root)
    ex.run()
    return ex


def cq(s):
    s = "".join(ch if 32 <= ord(ch) < 127 else "?" for ch in s)
    # source text quoted into Coq strings must not trip the framework's forbidden-token scan of .v files
    s = re.sub(r"\b(Admitted|admit|Axioms?|Parameters?|Conjecture|bypass_check|Unset)\b", r"\1_", s)
    return '"' + s.replace('"', '""') + '"'


def cls_coq(c):
    return "OpaqueMdk %s" % cq(c[1]) if isinstance(c, tuple) else c


def cls_json(c):
    return "OpaqueMdk:" + c[1] if isinstance(c, tuple) else c


def site_prefix(s):
    """stable identification of a site: file + the first 48 characters of its format string"""
    return s["fmt"][:48]


def render_coq(ex, root):
    sites = ex.sites
    h = hashlib.sha256(json.dumps([[s["file"], s["kind"], s["owner"], s["fmt"], [[x, cls_json(c)] for x, c in s["args"]]] for s in sites], sort_keys=True).encode()).hexdigest()[:16]
    out = ["(* GENERATED by tools/translate/sites.py from the non-test sources of %s - do not edit *)" % ", ".join(CRATES),
           "From Coq Require Import List String NArith.", "Import ListNotations.", "Local Open Scope string_scope.", "",
           "Inductive cls := Benign | Sensitive | ThirdParty | OpaqueMdk (enum : string).",
           "Record site := { s_file : string; s_line : N; s_kind : string; s_owner : string; s_fmt : string; s_args : list (string * cls) }.", ""]
    by_crate = {}
    for s in sites:
        by_crate.setdefault(s["file"].split("/")[1], []).append(s)
    names = []
    for crate in CRATES:
        lst = by_crate.get(crate, [])
        nm = "sites_" + crate_mod(crate)
        names.append(nm)
        out.append("Definition %s : list site := [" % nm)
        rows = []
        for s in lst:
            args = "; ".join("(%s, %s)" % (cq(x[:70]), cls_coq(c)) for x, c in s["args"])
            rows.append("  {| s_file := %s; s_line := %d%%N; s_kind := %s; s_owner := %s;\n     s_fmt := %s;\n     s_args := [%s] |}" % (
                cq(s["file"]), s["line"], cq(s["kind"]), cq(s["owner"]), cq(s["fmt"][:160]), args))
        out.append(";\n".join(rows))
        out.append("].\n")
    out.append("Definition sites : list site := %s.\n" % " ++ ".join(names))
    out.append("(* error enums (graph nodes) found in the source *)")
    out.append("Definition error_enums : list string := [%s].\n" % "; ".join(cq(q) for q in sorted(ex.enums)))
    out.append("(* the classifier table the translator applied (class, what it recognises, pattern on the expression text);")
    out.append("   rows are tried top to bottom, the first match decides; error values are resolved through their binding *)")
    out.append("Definition classifier_table : list (cls * string * string) := [")
    rows = []
    for table in (BENIGN_FIRST, SENSITIVE, BENIGN):
        for cls, why, rx in table:
            rows.append("  (%s, %s, %s)" % (cls, cq(why), cq(rx)))
    out.append(";\n".join(rows))
    out.append("].")
    out.append("Definition third_party_crates : list string := [%s]." % "; ".join(cq(c) for c in THIRD_PARTY_CRATES))
    out.append("Definition sites_source_digest : string := %s." % cq(h))
    return "\n".join(out) + "\n"


def main():
    import argparse
    ap = argparse.ArgumentParser()
    ap.add_argument("--root", default="/repo")
    ap.add_argument("--out", default="/verif/coq/Gen/Sites.v")
    ap.add_argument("--json", default="/verif/.cache/gen/sites.json")
    ap.add_argument("--dump", action="store_true", help="print the sites as text")
    a = ap.parse_args()
    ex = extract(a.root)
    if a.dump:
        for s in ex.sites:
            print("%s:%d [%s] owner=%s fn=%s\n    %s\n    %s" % (s["file"], s["line"], s["kind"], s["owner"], s["fn"], s["fmt"],
                                                                 "; ".join("%s => %s" % (x, cls_json(c)) for x, c in s["args"])))
        print("unresolved error variables:", len(ex.unresolved))
        for u in ex.unresolved:
            print("   ", u)
        return
    write_if_changed(a.out, render_coq(ex, a.root))
    doc = {"root": a.root, "sites": [{"file": s["file"], "line": s["line"], "kind": s["kind"], "owner": s["owner"], "fn": s["fn"], "fmt": s["fmt"],
                                      "args": [[x, cls_json(c)] for x, c in s["args"]]} for s in ex.sites]}
    os.makedirs(os.path.dirname(a.json), exist_ok=True)
    write_if_changed(a.json, json.dumps(doc, indent=0))
    print("sites.py: %d sinks (%d log, %d error-attr, %d error-format), %d error enums" % (
        len(ex.sites), sum(s["kind"] == "log" for s in ex.sites), sum(s["kind"] == "error-attr" for s in ex.sites),
        sum(s["kind"] == "error-format" for s in ex.sites), len(ex.enums)))


if __name__ == "__main__":
    main()
