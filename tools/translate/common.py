import os, sys
def write_if_changed(path, content):
    os.makedirs(os.path.dirname(path), exist_ok=True)
    if os.path.exists(path) and open(path).read() == content:
        return False
    open(path, "w").write(content)
    return True
def fail(msg):
    print("TRANSLATOR-FAIL: " + msg)
    sys.exit(1)
