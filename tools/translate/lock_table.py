#!/usr/bin/env python3
"""Source -> Coq: ordered lock acquisitions of every storage-trait method of both backends.

For every method of GroupStorage / MessageStorage / WelcomeStorage / MdkStorageProvider (method names are read
from the trait definitions in mdk-storage-traits) as implemented by MdkMemoryStorage and MdkSqliteStorage, for
the inherent helper fns that take a lock, and (second table) for the OpenMLS StorageProvider impl, the ordered
list of lock acquisitions in the body is extracted:
    self.inner.read() / self.inner.write() / self.group_snapshots.read() / .write()      (memory)
    self.connection.lock() / self.with_connection(..)                                     (SQLite)
Calls `self.<sibling>(..)` are followed (callee's acquisitions are spliced in at the call position).
For each acquisition the flag says whether some earlier acquisition of the same method execution is still held
at that point.  Holding is decided conservatively from the text:
    `let x = <acq>[.unwrap()|.expect(..)|?];`       guard bound: held to the end of the enclosing block
    `<acq>.something(..)...`                         temporary: held to the end of the enclosing statement
                                                     (next `;` at the same nesting depth, else end of block)
    `self.with_connection(<closure>)`                held to the matching `)`
Writes <out>/coq/Gen/LockTable.v (only when its content changes).  Fails loudly (exit 1, TRANSLATOR-FAIL) when a
trait method is not found, a lock field is used in a way not understood, or the storage structs gain a field.

Options: --root <dir> (default /repo) ; --out <verif dir> (default /verif) ; --print (dump the table to stdout)
"""
import hashlib, os, re, sys
sys.path.insert(0, os.path.dirname(os.path.abspath(__file__)))
from common import write_if_changed, fail


def opt(name, default):
    return sys.argv[sys.argv.index(name) + 1] if name in sys.argv else default


ROOT = opt("--root", "/repo")
OUT = opt("--out", "/verif")
CR = ROOT + "/crates"

TRAITS = [  # (trait name, file with the trait definition)
    ("GroupStorage", CR + "/mdk-storage-traits/src/groups/mod.rs"),
    ("MessageStorage", CR + "/mdk-storage-traits/src/messages/mod.rs"),
    ("WelcomeStorage", CR + "/mdk-storage-traits/src/welcomes/mod.rs"),
    ("MdkStorageProvider", CR + "/mdk-storage-traits/src/lib.rs"),
]
BACKENDS = [  # (backend name, type name, crate src dir, lock fields {field: type regex}, other allowed fields)
    ("memory", "MdkMemoryStorage", CR + "/mdk-memory-storage/src",
     {"inner": r"RwLock<", "group_snapshots": r"RwLock<"}, {"limits"}),
    ("sqlite", "MdkSqliteStorage", CR + "/mdk-sqlite-storage/src",
     {"connection": r"Arc<Mutex<Connection>>"}, set()),
]
REQUIRED_HELPERS = {
    "memory": ["create_group_scoped_snapshot", "restore_group_scoped_snapshot"],
    "sqlite": ["snapshot_group_state", "restore_group_from_snapshot", "delete_group_snapshot"],
}
MODE = {"read": "r", "write": "w", "lock": "x"}


# ------------------------------------------------------------------ lexing helpers
def sanitize(src):
    """Blank out comments, string/char literals (positions preserved) so that braces and `self.` only occur in code."""
    out = list(src)
    i, n = 0, len(src)

    def blank(a, b):
        for k in range(a, b):
            if out[k] != "\n":
                out[k] = " "
    while i < n:
        c = src[i]
        if src.startswith("//", i):
            j = src.find("\n", i)
            j = n if j < 0 else j
            blank(i, j); i = j
        elif src.startswith("/*", i):
            depth, j = 1, i + 2
            while j < n and depth:
                if src.startswith("/*", j): depth += 1; j += 2
                elif src.startswith("*/", j): depth -= 1; j += 2
                else: j += 1
            blank(i, j); i = j
        elif c == "r" and re.match(r'r#*"', src[i:i + 12]) and (i == 0 or not (src[i - 1].isalnum() or src[i - 1] == "_")):
            m = re.match(r'r(#*)"', src[i:])
            close = '"' + m.group(1)
            j = src.find(close, i + len(m.group(0)))
            j = n if j < 0 else j + len(close)
            blank(i, j); i = j
        elif c == '"':
            j = i + 1
            while j < n and src[j] != '"':
                j += 2 if src[j] == "\\" else 1
            blank(i + 1, min(j, n)); i = j + 1
        elif c == "'":
            m = re.match(r"'(\\.[^']*|[^\\'])'", src[i:i + 12])
            if m:
                blank(i + 1, i + len(m.group(0)) - 1); i += len(m.group(0))
            else:
                i += 1
        else:
            i += 1
    return "".join(out)


OPEN, CLOSE = "([{", ")]}"


def match_close(s, i):
    """s[i] is an opening bracket; return the index of its matching closing bracket."""
    depth = 0
    for j in range(i, len(s)):
        if s[j] in OPEN: depth += 1
        elif s[j] in CLOSE:
            depth -= 1
            if depth == 0:
                return j
    fail("unbalanced bracket at offset %d" % i)


def cut_tests(src, path):
    m = re.search(r"^mod tests \{", src, re.M)
    return src[:m.start()] if m else src


def fns_in_block(s, a, b):
    """fn items directly inside the block body s[a:b]: name -> (sig, body_start, body_end) or None body for declarations."""
    res, i, depth = {}, a, 0
    for m in re.finditer(r"\bfn\s+(\w+)", s[a:b]):
        pos = a + m.start()
        # depth of pos relative to a
        depth = 0
        for ch in s[a:pos]:
            if ch == "{": depth += 1
            elif ch == "}": depth -= 1
        if depth != 0:
            continue
        j, pd = a + m.end(), 0
        while j < b:
            ch = s[j]
            if ch in "([": pd += 1
            elif ch in ")]": pd -= 1
            elif pd == 0 and ch == "{":
                e = match_close(s, j)
                res[m.group(1)] = (s[pos:j], j + 1, e)
                break
            elif pd == 0 and ch == ";":
                res[m.group(1)] = (s[pos:j], None, None)
                break
            j += 1
    return res


def impl_blocks(s):
    """top-level `impl ... {` blocks: list of (header, body_start, body_end)."""
    res = []
    for m in re.finditer(r"^impl\b[^{;]*\{", s, re.M):
        o = m.end() - 1
        res.append((re.sub(r"\s+", " ", m.group(0)[:-1]).strip(), o + 1, match_close(s, o)))
    return res


# ------------------------------------------------------------------ per-function analysis
class Fn:
    def __init__(self, name, file, text, a, b, has_self):
        self.name, self.file, self.text, self.a, self.b, self.has_self = name, file, text, a, b, has_self
        self.events = None


def enclosing_block_end(s, pos, a, b):
    """end (index of the closing brace or b) of the innermost `{}` block of s[a:b] that contains pos."""
    stack = []
    for j in range(a, pos):
        if s[j] == "{": stack.append(j)
        elif s[j] == "}": stack.pop()
    return match_close(s, stack[-1]) if stack else b


def statement_end(s, pos, a, b):
    """conservative end of the statement containing pos: the next `;` at the bracket depth of the innermost
    enclosing `{}` block (i.e. not inside nested (), [] or {} opened after the statement start), else the block end."""
    blk_end = enclosing_block_end(s, pos, a, b)
    # bracket depth (all kinds) at pos relative to the enclosing block start
    stack = []
    for j in range(a, pos):
        if s[j] == "{": stack.append(j)
        elif s[j] == "}": stack.pop()
    start = (stack[-1] + 1) if stack else a
    depth = 0
    for j in range(start, blk_end):
        ch = s[j]
        if ch in OPEN: depth += 1
        elif ch in CLOSE: depth -= 1
        elif ch == ";" and depth == 0 and j >= pos:
            return j
    return blk_end


def statement_start(s, pos, a):
    """start of the statement containing pos (after the previous `;`, `{` or `}` at depth 0 going backwards)."""
    depth = 0
    j = pos - 1
    while j >= a:
        ch = s[j]
        if ch in CLOSE: depth += 1
        elif ch in OPEN:
            if depth == 0:
                return j + 1
            depth -= 1
        elif ch == ";" and depth == 0:
            return j + 1
        j -= 1
    return a


ACQ = re.compile(r"\bself\s*\.\s*(inner|group_snapshots|connection)\s*\.\s*(read|write|lock)\s*\(\s*\)")
WITHC = re.compile(r"\bself\s*\.\s*with_connection\s*\(")
CALL = re.compile(r"\bself\s*\.\s*(\w+)\s*\(")
FIELD = re.compile(r"\bself\s*\.\s*(inner|group_snapshots|connection)\b")
BOUND_TAIL = re.compile(r"\s*(\.\s*unwrap\s*\(\s*\)|\.\s*expect\s*\([^()]*\)|\?)?\s*;")


def analyse(fn, lock_fields, index):
    """events of fn: sorted list of ('acq', pos, lock, mode, hold_end) / ('call', pos, callee)."""
    s, a, b = fn.text, fn.a, fn.b
    ev, covered = [], []
    for m in ACQ.finditer(s, a, b):
        lock, meth = m.group(1), m.group(2)
        if lock not in lock_fields:
            fail("%s: lock field %s used in %s" % (fn.file, lock, fn.name))
        if (lock == "connection") != (meth == "lock"):
            fail("%s: unexpected %s.%s() in fn %s" % (fn.file, lock, meth, fn.name))
        tail = BOUND_TAIL.match(s, m.end())
        st = statement_start(s, m.start(), a)
        is_let = re.match(r"\s*let\b", s[st:m.start()]) is not None
        if tail and is_let and re.match(r"\s*let\s+(mut\s+)?\w+(\s*:[^=]+)?\s*=\s*$", s[st:m.start()]):
            end = enclosing_block_end(s, m.start(), a, b)          # guard bound to a local
        elif tail and not is_let and re.match(r"\s*$", s[st:m.start()]):
            end = tail.end()                                        # bare `self.x.read();` : dropped at once
        else:
            end = statement_end(s, m.start(), a, b)                 # temporary (or anything not understood)
        ev.append(("acq", m.start(), lock, MODE[meth], end))
        covered.append((m.start(), m.end()))
    for m in WITHC.finditer(s, a, b):
        if "connection" not in lock_fields:
            fail("%s: with_connection used in %s" % (fn.file, fn.name))
        ev.append(("acq", m.start(), "connection", "x", match_close(s, m.end() - 1)))
        covered.append((m.start(), m.end()))
    for m in FIELD.finditer(s, a, b):
        if not any(x <= m.start() < y for x, y in covered):
            fail("%s: fn %s uses lock field `%s` in a way the translator does not understand: %r" % (
                fn.file, fn.name, m.group(1), s[m.start():m.start() + 60]))
    for m in CALL.finditer(s, a, b):
        callee = m.group(1)
        if callee == "with_connection" or any(x <= m.start() < y for x, y in covered):
            continue
        if callee in index:
            ev.append(("call", m.start(), callee))
    ev.sort(key=lambda e: e[1])
    return ev


def flatten(name, index, lock_fields, stack=()):
    """[(lock, mode, nested)] of fn `name`, callee sequences spliced in."""
    if name in stack:
        fail("recursive self-call chain %s -> %s" % (" -> ".join(stack), name))
    if len(stack) > 4:
        fail("self-call chain deeper than 4: %s" % " -> ".join(stack + (name,)))
    fn = index[name]
    if fn.events is None:
        fn.events = analyse(fn, lock_fields, index)
    res, held = [], []   # held: hold_end positions of this fn's own acquisitions
    for e in fn.events:
        pos = e[1]
        outer = any(h > pos for h in held)
        if e[0] == "acq":
            res.append((e[2], e[3], outer))
            held.append(e[4])
        else:
            sub = flatten(e[2], index, lock_fields, stack + (name,))
            res += [(l, m, n or outer) for (l, m, n) in sub]
    return res


# ------------------------------------------------------------------ main
def trait_methods():
    res = []
    for tname, path in TRAITS:
        if not os.path.exists(path):
            fail("trait file missing: " + path)
        s = sanitize(cut_tests(open(path).read(), path))
        m = re.search(r"\bpub trait %s\b[^{]*\{" % tname, s)
        if not m:
            fail("trait %s not found in %s" % (tname, path))
        o = m.end() - 1
        fns = fns_in_block(s, o + 1, match_close(s, o))
        if not fns:
            fail("trait %s has no methods?" % tname)
        for f, (sig, ba, bb) in fns.items():
            res.append((tname, f, Fn(f, path, s, ba, bb, True) if ba is not None else None))
    return res


def main():
    tmethods = trait_methods()
    table, mls_table, digest_src = [], [], []
    for bname, tyname, srcdir, lock_fields, other_fields in BACKENDS:
        files = sorted(os.path.join(srcdir, f) for f in os.listdir(srcdir) if f.endswith(".rs"))
        index, trait_impl, mls_impl, inherent = {}, {}, [], []
        struct_seen = False
        for path in files:
            raw = cut_tests(open(path).read(), path)
            s = sanitize(raw)
            sm = re.search(r"\bpub struct %s \{" % tyname, s)
            if sm:
                struct_seen = True
                body = s[sm.end():match_close(s, sm.end() - 1)]
                fields = dict(re.findall(r"^\s*(?:pub(?:\([a-z]+\))?\s+)?(\w+)\s*:\s*([^\n]+?),?\s*$", body, re.M))
                for f, t in fields.items():
                    if f in lock_fields:
                        if not re.match(lock_fields[f], t):
                            fail("%s.%s has type %s, expected %s" % (tyname, f, t, lock_fields[f]))
                    elif f not in other_fields or re.search(r"Mutex|RwLock|Cell|Atomic|Condvar", t):
                        fail("%s has a field the lock model does not know: %s: %s" % (tyname, f, t))
                for f in lock_fields:
                    if f not in fields:
                        fail("%s lost its lock field %s" % (tyname, f))
            for header, a, b in impl_blocks(s):
                hm = re.match(r"impl(?:<[^>]*>)?\s+(?:(\w+)(?:<[^>]*>)?\s+for\s+)?(\w+)$", header)
                if not hm or hm.group(2) != tyname:
                    continue
                tr = hm.group(1)
                for f, (sig, ba, bb) in fns_in_block(s, a, b).items():
                    if ba is None:
                        continue
                    has_self = re.search(r"\(\s*&\s*(mut\s+)?self\b|\(\s*self\b", sig) is not None
                    fn = Fn(f, path, s, ba, bb, has_self)
                    if tr is None:
                        index[f] = fn
                        inherent.append(f)
                    elif tr in [t for t, _ in TRAITS]:
                        index[f] = fn
                        trait_impl[(tr, f)] = fn
                    elif tr == "StorageProvider":
                        index["mls::" + f] = fn
                        mls_impl.append("mls::" + f)
                    if tr is None or tr in [t for t, _ in TRAITS] or tr == "StorageProvider":
                        digest_src.append("%s %s::%s\n%s" % (bname, tr, f, raw[ba:bb]))
        if not struct_seen:
            fail("struct %s not found under %s" % (tyname, srcdir))
        if bname == "sqlite":
            wc = index.get("with_connection")
            if wc is None:
                fail("with_connection not found")
            if len(ACQ.findall(wc.text[wc.a:wc.b])) != 1 or CALL.search(wc.text, wc.a, wc.b) and \
                    any(m.group(1) in index for m in CALL.finditer(wc.text, wc.a, wc.b)):
                fail("with_connection no longer takes exactly one connection.lock()")
        # trait methods (default bodies of the trait are analysed against this backend's index)
        for tname, f, default in tmethods:
            if (tname, f) in trait_impl:
                pass
            elif default is not None:
                index[f] = Fn(f, default.file, default.text, default.a, default.b, True)
            else:
                fail("trait method %s::%s has no implementation for %s" % (tname, f, tyname))
            table.append((bname, f, flatten(f, index, lock_fields)))
        for h in REQUIRED_HELPERS[bname]:
            if h not in inherent:
                fail("helper fn %s not found in impl %s" % (h, tyname))
        for f in inherent:
            if f == "with_connection" or not index[f].has_self:
                continue
            acqs = flatten(f, index, lock_fields)
            if acqs or f in REQUIRED_HELPERS[bname]:
                table.append((bname, f, acqs))
        if not mls_impl:
            fail("impl StorageProvider for %s not found" % tyname)
        for f in mls_impl:
            mls_table.append((bname, f[5:], flatten(f, index, lock_fields)))

    def row(e):
        b, f, acqs = e
        return '("%s", "%s", [%s])' % (b, f, "; ".join('("%s", "%s", %s)' % (l, m, "true" if n else "false") for l, m, n in acqs))
    ty = "list (string * string * list (string * string * bool))"
    digest = hashlib.sha256("\n".join(digest_src).encode()).hexdigest()[:16]
    out = "(* GENERATED by tools/translate/lock_table.py from crates/mdk-memory-storage, crates/mdk-sqlite-storage,\n"
    out += "   crates/mdk-storage-traits - do not edit.\n"
    out += "   entry = (backend, method, ordered acquisitions (lock, mode r|w|x, taken while an earlier one is still held)) *)\n"
    out += "From Coq Require Import List String.\nImport ListNotations.\nLocal Open Scope string_scope.\n"
    out += "Definition lock_table : %s :=\n  [" % ty + ";\n   ".join(row(e) for e in table) + "].\n"
    out += "(* OpenMLS StorageProvider<1> impl of both backends (same entry format) *)\n"
    out += "Definition mls_lock_table : %s :=\n  [" % ty + ";\n   ".join(row(e) for e in mls_table) + "].\n"
    out += 'Definition lock_table_source_digest : string := "%s".\n' % digest
    if "--print" in sys.argv:
        for b, f, acqs in table:
            print("%-7s %-42s %s" % (b, f, " ; ".join("%s.%s%s" % (l, m, "(nested)" if n else "") for l, m, n in acqs)))
        print("mls entries: %d, multi/nested: %s" % (len(mls_table), [(b, f) for b, f, a in mls_table if len(a) != 1 or any(x[2] for x in a)]))
    write_if_changed(OUT + "/coq/Gen/LockTable.v", out)


main()
