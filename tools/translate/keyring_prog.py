#!/usr/bin/env python3
"""Source -> Coq for C13: the ORDER of the calls inside keyring::get_or_create_db_key (get / lock / get / generate /
set), which keyring function each arm of MdkSqliteStorage::new calls, and the mode constants of permissions.rs.
Writes <root>/coq/Gen/KeyringProg.v (only when its content changes).  Fails loudly when the source no longer has the
expected shape."""
import os, re, sys
ROOT = os.environ.get("VERIF_ROOT", "/verif")
sys.path.insert(0, ROOT + "/tools/translate")
from common import write_if_changed, fail

CR = "/repo/crates/mdk-sqlite-storage/src/"


def strip_comments(s):
    s = re.sub(r"//[^\n]*", "", s)
    return re.sub(r"/\*.*?\*/", "", s, flags=re.S)


def fn_body(src, header_re, what):
    m = re.search(header_re, src)
    if not m:
        fail("function %s not found" % what)
    i = src.index("{", m.end() - 1) if src[m.end() - 1] != "{" else m.end() - 1
    depth, j = 0, i
    while j < len(src):
        if src[j] == "{":
            depth += 1
        elif src[j] == "}":
            depth -= 1
            if depth == 0:
                return src[i:j + 1]
        j += 1
    fail("unbalanced braces in " + what)


# ---------------------------------------------------------------- keyring.rs: get_or_create_db_key
ksrc = strip_comments(open(CR + "keyring.rs").read())
body = fn_body(ksrc, r"pub fn get_or_create_db_key\s*\([^)]*\)\s*->\s*Result<EncryptionConfig,\s*Error>\s*\{", "get_or_create_db_key")
if not re.search(r"static\s+KEY_GENERATION_LOCK\s*:\s*OnceLock<Mutex<\(\)>>", ksrc):
    fail("process-wide KEY_GENERATION_LOCK (OnceLock<Mutex<()>>) not found")
TOK = [
    ("get", r"get_db_key\s*\("),
    ("lock", r"\.\s*lock\s*\(\s*\)"),
    ("generate", r"EncryptionConfig::generate\s*\("),
    ("set", r"\.\s*set_secret\s*\("),
]
events = []
for name, rx in TOK:
    for m in re.finditer(rx, body):
        events.append((m.start(), name))
events.sort()
steps = [n for _, n in events]
if not steps:
    fail("no keyring steps recognised in get_or_create_db_key")
# every `get` must be the early-return form: if let Some(config) = get_db_key(..)? { return Ok(config); }
gets = re.findall(r"if\s+let\s+Some\((\w+)\)\s*=\s*get_db_key\s*\([^)]*\)\s*\?\s*\{\s*return\s+Ok\(\1\)\s*;\s*\}", body)
if len(gets) != steps.count("get"):
    fail("a get_db_key call in get_or_create_db_key is not of the form `if let Some(c) = get_db_key(..)? { return Ok(c); }`")
# the guard must be bound to a named variable (dropped at the end of the function), not `_`
if "lock" in steps and not re.search(r"let\s+_\w+\s*=\s*\w+\s*\.\s*lock\s*\(\s*\)", body):
    fail("the MutexGuard of KEY_GENERATION_LOCK is not bound to a named variable (it would be dropped at once)")
# the generated key is the one stored and returned
if "set" in steps and not re.search(r"let\s+(\w+)\s*=\s*EncryptionConfig::generate\(\)\?;.*\.set_secret\(\s*\1\.key\(\)\s*\).*Ok\(\1\)\s*\}\s*$", body, re.S):
    fail("get_or_create_db_key does not store and return the generated config")

# ---------------------------------------------------------------- lib.rs: arms of MdkSqliteStorage::new
lsrc = strip_comments(open(CR + "lib.rs").read())
nbody = fn_body(lsrc, r"pub fn new<P>\s*\(\s*file_path:\s*P,\s*service_id:\s*&str,\s*db_key_id:\s*&str\s*\)\s*->\s*Result<Self,\s*Error>\s*where\s*P:\s*AsRef<Path>,\s*\{", "MdkSqliteStorage::new")
if not re.search(r"let\s+creation_outcome\s*=\s*precreate_secure_database_file\(file_path\)\?;", nbody):
    fail("MdkSqliteStorage::new does not start from precreate_secure_database_file")
mc = re.search(r"FileCreationOutcome::Created\s*\|\s*FileCreationOutcome::Skipped\s*=>\s*\{(.*?)\}\s*FileCreationOutcome::AlreadyExisted\s*=>\s*\{(.*)\}\s*\}\s*;", nbody, re.S)
if not mc:
    fail("match on creation_outcome (Created|Skipped / AlreadyExisted) not found in MdkSqliteStorage::new")
CALLS = [("get_or_create_db_key", r"keyring::get_or_create_db_key\s*\("), ("get_db_key", r"keyring::get_db_key\s*\("),
         ("is_database_encrypted", r"is_database_encrypted\s*\("),
         ("UnencryptedDatabaseWithEncryption", r"Error::UnencryptedDatabaseWithEncryption"),
         ("KeyringEntryMissingForExistingDatabase", r"Error::KeyringEntryMissingForExistingDatabase")]


def calls(text):
    ev = []
    for name, rx in CALLS:
        for m in re.finditer(rx, text):
            ev.append((m.start(), name))
    return [n for _, n in sorted(ev)]


created_arm, existing_arm = calls(mc.group(1)), calls(mc.group(2))
wbody = fn_body(lsrc, r"pub fn new_with_key<P>\s*\([^)]*\)\s*->\s*Result<Self,\s*Error>\s*where\s*P:\s*AsRef<Path>,\s*\{", "new_with_key")
with_key_guard = bool(re.search(r"if\s+file_path\.exists\(\)\s*&&\s*!\s*encryption::is_database_encrypted\(file_path\)\?\s*\{\s*return\s+Err\(Error::UnencryptedDatabaseWithEncryption\)", wbody))

# ---------------------------------------------------------------- permissions.rs / lib.rs: modes, sidecars
psrc = strip_comments(open(CR + "permissions.rs").read())
fm = re.search(r"fn set_unix_file_permissions.*?from_mode\((0o[0-7]+)\)", psrc, re.S)
dm = re.search(r"fn set_unix_directory_permissions.*?from_mode\((0o[0-7]+)\)", psrc, re.S)
if not fm or not dm:
    fail("mode constants of set_unix_file_permissions / set_unix_directory_permissions not found")
pre = fn_body(psrc, r"pub fn precreate_secure_database_file<P>\s*\([^)]*\)\s*->\s*Result<FileCreationOutcome,\s*Error>\s*where\s*P:\s*AsRef<Path>,\s*\{", "precreate_secure_database_file")
excl = bool(re.search(r"OpenOptions::new\(\)\.write\(true\)\.create_new\(true\)\.open\(path\)", pre))
sc = re.search(r"for\s+suffix\s+in\s+&\[([^\]]*)\]", lsrc)
sidecars = re.findall(r'"([^"]+)"', sc.group(1)) if sc else []
if not sidecars:
    fail("sidecar suffix list of apply_secure_permissions not found")

q = lambda l: "[" + "; ".join('"%s"' % x for x in l) + "]"
out = "(* GENERATED by tools/translate/keyring_prog.py from %s{keyring,lib,permissions}.rs - do not edit *)\n" % CR
out += "From Coq Require Import List String NArith.\nImport ListNotations.\nLocal Open Scope string_scope.\n"
out += "(* order of the keyring / lock calls inside get_or_create_db_key; every get is `if let Some(c) = get_db_key(..)? { return Ok(c); }` *)\n"
out += "Definition get_or_create_steps : list string := %s.\n" % q(steps)
out += "(* MdkSqliteStorage::new: what each arm of the match on the file-creation outcome refers to, in order *)\n"
out += "Definition new_created_arm : list string := %s.\n" % q(created_arm)
out += "Definition new_existing_arm : list string := %s.\n" % q(existing_arm)
out += "Definition new_with_key_refuses_unencrypted_existing : bool := %s.\n" % ("true" if with_key_guard else "false")
out += "Definition precreate_uses_create_new : bool := %s.\n" % ("true" if excl else "false")
out += "Definition src_file_mode : N := %d%%N.\nDefinition src_dir_mode : N := %d%%N.\n" % (int(fm.group(1)[2:], 8), int(dm.group(1)[2:], 8))
out += "Definition src_sidecar_suffixes : list string := %s.\n" % q(sidecars)
write_if_changed(ROOT + "/coq/Gen/KeyringProg.v", out)
