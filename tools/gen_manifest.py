#!/usr/bin/env python3
"""Writes /verif/MANIFEST.json from lib/registry.py + tools/manifest_meta.json (texts per property)."""
import json, subprocess, sys
sys.path.insert(0, "/verif/lib")
from registry import REGISTRY
meta = json.load(open("/verif/tools/manifest_meta.json"))
props = [json.loads(l) for l in open("/verif/properties.jsonl")]
hook_commits = [l.split()[0] for l in subprocess.run("git -C /repo log --format='%H %s' ", shell=True, capture_output=True, text=True).stdout.splitlines() if "verif-hooks" in l]
checks, na = [], []
for p in props:
    pid = p["id"]
    if pid in REGISTRY and pid in meta["checks"]:
        m = meta["checks"][pid]
        checks.append({
            "property_id": pid,
            "quick_cmd": "./check %s --tier quick" % pid,
            "thorough_cmd": "./check %s --tier thorough" % pid,
            "evidence_file": "evidence/%s.json" % pid,
            "replay_cmd_template": "./check %s --replay {path}" % pid,
            "engine": "coq+harness",
            "level_claimed": {"category": "proof", "text": m["text"], "design_ref": m["design_ref"]},
            "level_note": m["note"],
            "technique": m["technique"],
        })
    else:
        na.append({"property_id": pid, "reason": meta["not_applicable"].get(pid, "check not built yet in this development; not claimed (see DESIGN.md section 13 status table)")})
man = {
    "version": 1,
    "setup_cmd": "./setup.sh",
    "hooks": {
        "guard": "verif-hooks",
        "enable": "cargo feature `verif-hooks` of mdk-core / mdk-sqlite-storage, switched on by the path dependencies in /verif/harness/Cargo.toml (the checks build /repo's working tree through that crate)",
        "baseline_off_cmd": "cd /repo && cargo test --workspace --no-fail-fast --offline",
        "source_commits": hook_commits,
        "add_only": True,
    },
    "engines": [
        {"name": "coq", "path": "coq/", "serves_properties": sorted(REGISTRY), "kind_free_text": "Rocq/Coq 8.16.1 development: executable Gallina models + theorems (Props/Cxx.v), regenerated tables (Gen/*.v)"},
        {"name": "harness", "path": "harness/", "serves_properties": sorted(REGISTRY), "kind_free_text": "Rust differential harness: implementation (memory + SQLite) vs OCaml-extracted Coq model, property oracles, known-finding classification"},
    ],
    "checks": checks,
    "not_applicable": na,
    "notes": meta.get("notes", ""),
}
json.dump(man, open("/verif/MANIFEST.json", "w"), indent=1)
print("MANIFEST: %d checks, %d not claimed" % (len(checks), len(na)))
