"""Per-property configuration of ./check (what is translated, proved, run and compared)."""

TRUSTED_COMMON = [
    "Coq 8.16.1 kernel (coqc; vm_compute used for witnesses, Examples and finite tables; no native_compute)",
    "no axioms declared by the development; per-theorem Print Assumptions output is recorded under coverage.theorems",
    "extraction: ExtrOcamlBasic only (Extract Inductive bool/option/unit/list/prod/sumbool/sumor, Extract Inlined Constant andb/orb); OCaml 4.13.1; ocaml/driver.ml line parser/printer",
    "harness canonicalisation (hex, ordering of printed sets, PANIC counted as a refusal for codec comparison)",
]


STORAGE_HARNESS = [
    {"bin": "storage_diff", "model": True, "stateful": True, "name": "storage_diff-mem",
     "quick": ["--backend", "mem", "--seqs", "50", "--len", "60"], "thorough": ["--backend", "mem", "--seqs", "1500", "--len", "80"]},
    {"bin": "storage_diff", "model": True, "stateful": True, "name": "storage_diff-sqlite",
     "quick": ["--backend", "sqlite", "--seqs", "50", "--len", "60"], "thorough": ["--backend", "sqlite", "--seqs", "1500", "--len", "80"]},
]
STORAGE_TRUST = [
    "translator tools/translate/sql_tables.py (ORDER BY clauses, FK cascade edges, restore/snapshot statement plans by regex on rustfmt-formatted source)",
    "modelled, not verified: rusqlite/SQLite statement and transaction semantics, the lru crate (memory backend below its capacity limits), serde_json row encodings; both backends are compared with the contract model on every run",
]
STORAGE_ASSUME = [
    "operation sequences stay within both backends' documented limits (cache capacity, validation lengths); snapshots are taken of existing groups; a nostr group id is not moved between groups",
]

REGISTRY = {
    "C15": {
        "props_file": "Props/C15.v",
        "gen": ["ext_layout"],
        "harness": [
            {"bin": "codec_diff", "model": True, "canon": ["panic_is_err"],
             "quick": ["--n", "400"], "thorough": ["--n", "12000"]},
        ],
        "trusted_base": [
            "translator tools/translate/ext_layout.py (struct field order/types, constants)",
            "modelled, not verified: tls_codec beyond varint/vector/array rules; nostr RelayUrl::parse and PublicKey (oracle table supplied per case); String::from_utf8 (Coq validator compared on every case)",
        ],
        "assumptions": [
            "RelayUrl::parse is a function of its input (oracle); BTreeSet order of PublicKey/RelayUrl is bytewise lexicographic",
        ],
    },
    "C09": {"props_file": "Props/C09.v", "gen": ["sql_tables"], "harness": STORAGE_HARNESS, "trusted_base": STORAGE_TRUST, "assumptions": STORAGE_ASSUME},
    "C10": {"props_file": "Props/C10.v", "gen": ["sql_tables"], "harness": STORAGE_HARNESS, "trusted_base": STORAGE_TRUST, "assumptions": STORAGE_ASSUME},
    "C18": {"props_file": "Props/C18.v", "gen": ["sql_tables"], "harness": STORAGE_HARNESS, "trusted_base": STORAGE_TRUST, "assumptions": STORAGE_ASSUME},
}
