"""Per-property configuration of ./check (what is translated, proved, run and compared)."""

TRUSTED_COMMON = [
    "Coq 8.16.1 kernel (coqc; vm_compute used for witnesses, Examples and finite tables; no native_compute)",
    "no axioms declared by the development; per-theorem Print Assumptions output is recorded under coverage.theorems",
    "extraction: ExtrOcamlBasic only (Extract Inductive bool/option/unit/list/prod/sumbool/sumor, Extract Inlined Constant andb/orb); OCaml 4.13.1; ocaml/driver.ml line parser/printer",
    "harness canonicalisation (hex, ordering of printed sets, PANIC counted as a refusal for codec comparison)",
]

REGISTRY = {
    "C15": {
        "props_file": "Props/C15.v",
        "gen": ["ext_layout"],
        "harness": [
            {"bin": "codec_diff", "model": True, "canon": ["panic_is_err"],
             "quick": ["--n", "400"], "thorough": ["--n", "12000"]},
        ],
        "trusted_base": [
            "translator tools/translate/ext_layout.py (struct field order/types, constants)",
            "modelled, not verified: tls_codec beyond varint/vector/array rules; nostr RelayUrl::parse and PublicKey (oracle table supplied per case); String::from_utf8 (Coq validator compared on every case)",
        ],
        "assumptions": [
            "RelayUrl::parse is a function of its input (oracle); BTreeSet order of PublicKey/RelayUrl is bytewise lexicographic",
        ],
    },
}
