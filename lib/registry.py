"""Per-property configuration of ./check (what is translated, proved, run and compared)."""

TRUSTED_COMMON = [
    "Coq 8.16.1 kernel (coqc; vm_compute used for witnesses, Examples and finite tables; no native_compute)",
    "no axioms declared by the development; per-theorem Print Assumptions output is recorded under coverage.theorems",
    "extraction: ExtrOcamlBasic only (Extract Inductive bool/option/unit/list/prod/sumbool/sumor, Extract Inlined Constant andb/orb); OCaml 4.13.1; ocaml/driver.ml line parser/printer",
    "harness canonicalisation (hex, ordering of printed sets, PANIC counted as a refusal for codec comparison)",
]


STORAGE_HARNESS = [
    {"bin": "storage_diff", "model": True, "stateful": True, "name": "storage_diff-mem",
     "quick": ["--backend", "mem", "--seqs", "50", "--len", "60"], "thorough": ["--backend", "mem", "--seqs", "1500", "--len", "80"]},
    {"bin": "storage_diff", "model": True, "stateful": True, "name": "storage_diff-sqlite",
     "quick": ["--backend", "sqlite", "--seqs", "50", "--len", "60"], "thorough": ["--backend", "sqlite", "--seqs", "1500", "--len", "80"]},
]
PTR_HARNESS = [
    {"bin": "ptr_diff", "model": False, "name": "ptr_diff-mem", "quick": ["--backend", "mem", "--hist", "32", "--steps", "30"], "thorough": ["--backend", "mem", "--hist", "640", "--steps", "40"]},
    {"bin": "ptr_diff", "model": False, "name": "ptr_diff-sqlite", "quick": ["--backend", "sqlite", "--hist", "16", "--steps", "30"], "thorough": ["--backend", "sqlite", "--hist", "320", "--steps", "40"]},
]
STORAGE_TRUST = [
    "translator tools/translate/sql_tables.py (ORDER BY clauses, FK cascade edges, restore/snapshot statement plans by regex on rustfmt-formatted source)",
    "modelled, not verified: rusqlite/SQLite statement and transaction semantics, the lru crate (memory backend below its capacity limits), serde_json row encodings; both backends are compared with the contract model on every run",
]
STORAGE_ASSUME = [
    "operation sequences stay within both backends' documented limits (cache capacity, validation lengths); snapshots are taken of existing groups; a nostr group id is not moved between groups",
]

PROTO_HARNESS = [
    {"bin": "proto_diff", "model": True, "stateful": True, "name": "proto_diff-mem",
     "quick": ["--backend", "mem", "--hist", "40", "--steps", "45"], "thorough": ["--backend", "mem", "--hist", "1500", "--steps", "60"],
     "search": ["--backend", "mem", "--hist", "300", "--steps", "45"]},
    {"bin": "proto_diff", "model": True, "stateful": True, "name": "proto_diff-sqlite",
     "quick": ["--backend", "sqlite", "--hist", "10", "--steps", "40"], "thorough": ["--backend", "sqlite", "--hist", "250", "--steps", "60"],
     "search": ["--backend", "sqlite", "--hist", "60", "--steps", "45"]},
]
PROTO_TRUST = [
    "modelled, not verified: OpenMLS 0.8.1 as a symbolic oracle (a group state is named by the commit that produced it; the outer NIP-44 layer opens iff the receiver holds the exporter secret of the sender's state; WrongEpoch / own-message / consumed-ratchet-key / missing-by-reference-proposal reactions), NIP-44, the nostr crate; the engine model's fingerprints are compared with real clients on every run (both backends)",
    "harness ground truth: event facts (author, creation state named through the epoch authenticator, epoch, wrapper timestamp set through the verif-hooks feature, id order key, authorisation class, swept proposals) are computed by the harness from how each event was built, never from the outcome being judged",
    "event ids are random (ephemeral keys, MLS randomness): histories with equal wrapper timestamps replay up to the order of event ids",
]
PROTO_ASSUME = [
    "3-4 initial members joined through real welcomes, optionally two of them devices of one Nostr identity, at most one later joiner, one removal and one leave per history, one group",
    "clear_pending_commit is only used for commits that were never delivered to anyone (its documented purpose)",
    "the engine model keeps a static own-admin flag (it only decides the auto-commit of leave proposals): no leave proposal is generated after an authorised admin-set change; it has no sender-side ratchet generations: a client that re-entered an MLS state through a rollback triggered by one of its own commits creates nothing more in generated histories",
    "application messages first offered more than the exporter-secret look-back (5 epochs) after they were sent, and forks deeper than the snapshot retention, are outside the convergence / delivery oracles",
]

REGISTRY = {
    "C15": {
        "props_file": "Props/C15.v",
        "props_file_extra": ["Props/C15b.v"],
        "gen": ["ext_layout"],
        "harness": [
            {"bin": "codec_diff", "model": True, "canon": ["panic_is_err"],
             "quick": ["--n", "400"], "thorough": ["--n", "12000"]},
            {"bin": "event_codec_diff", "model": True, "quick": ["--n", "12"], "thorough": ["--n", "300"]},
        ],
        "trusted_base": [
            "translator tools/translate/ext_layout.py (struct field order/types, constants)",
            "modelled, not verified: tls_codec beyond varint/vector/array rules; nostr RelayUrl::parse and PublicKey (oracle table supplied per case); String::from_utf8 (Coq validator compared on every case)",
        ],
        "assumptions": [
            "RelayUrl::parse is a function of its input (oracle); BTreeSet order of PublicKey/RelayUrl is bytewise lexicographic",
        ],
    },
    "C09": {"props_file": "Props/C09.v", "gen": ["sql_tables"], "harness": STORAGE_HARNESS, "trusted_base": STORAGE_TRUST, "assumptions": STORAGE_ASSUME},
    "C10": {"props_file": "Props/C10.v", "gen": ["sql_tables"], "harness": STORAGE_HARNESS, "trusted_base": STORAGE_TRUST, "assumptions": STORAGE_ASSUME},
    "C18": {"props_file": "Props/C18.v", "gen": ["sql_tables"], "harness": STORAGE_HARNESS + PTR_HARNESS, "trusted_base": STORAGE_TRUST + [
                "ptr_diff is an oracle-only harness (no model run: processed_at is the implementation's wall clock): it evaluates the conclusion of C18_pointer_is_head and the strict order of the listing on the real clients' stored state after every step"],
            "assumptions": STORAGE_ASSUME + ["engine level (ptr_diff): 3 members, 2 admins, one group, created_at from two values, at most two 1.05 s pauses per history"]},
    "C13": {
        "props_file": "Props/C13.v",
        "gen": ["keyring_prog"],
        "harness": [
            {"bin": "enc_diff", "model": True,
             "quick": ["--runs", "20", "--big", "200000", "--n", "3"],
             "thorough": ["--runs", "500", "--big", "900000", "--n", "12"]},
        ],
        "trusted_base": [
            "translator tools/translate/keyring_prog.py (call order inside get_or_create_db_key, arms of MdkSqliteStorage::new, mode constants)",
            "harness probes: file state classified by header + an independent rusqlite/SQLCipher connection on a copy of the files; in-memory keyring store implementing keyring-core's CredentialStoreApi that records every set_secret",
            "modelled, not verified: SQLCipher (that pages, journal and temp files hold only ciphertext is OBSERVED by the canary scan, not proved); SQLite locking; OS file-mode semantics (chmod/umask/O_EXCL); keyring-core stores other than the in-memory one; std::sync::Mutex as an atomic lock",
        ],
        "assumptions": [
            "one process (the generation lock is process-wide; cross-process coordination is documented as out of scope by the crate)",
            "EncryptionConfig::generate never returns the same key twice (fresh-key counter in the model)",
            "keyring get/set are atomic and never fail (failure paths of the credential store are not modelled)",
        ],
    },
    "C19": {
        "props_file": "Props/C19.v",
        "gen": ["lock_table"],
        "harness": [
            {"bin": "conc_stress", "model": True, "quick": ["--runs", "40"], "thorough": ["--runs", "1500"]},
        ],
        "trusted_base": [
            "translator tools/translate/lock_table.py (regex + brace matching on rustfmt source: self.inner.read/write, self.group_snapshots.read/write, self.connection.lock, self.with_connection; sibling self-calls spliced in; hold extent from let-binding / statement / closure scope; assumes no callee returns a guard)",
            "reduction of lock-protected critical sections to atomic steps (standard; not proved here); parking_lot RwLock, std::sync::Mutex and SQLite's own locking are outside the model and only exercised by conc_stress",
            "key/value abstraction of the store in Conc/Sections.v (group record, relay set, messages, snapshots); its section lists are tied to the generated table by C19_kv_model_matches_shapes + C19_current_table_matches_model",
            "conc_stress is an oracle-only harness (no model comparison): actual interleavings are sampled, not enumerated",
        ],
        "assumptions": [
            "SQLite: stored snapshots always contain the group's row (FK group_state_snapshots.group_id -> groups), hence no trait method ever deletes a group row (hypothesis snaps_have_group of C19_sqlite_linearizable)",
            "memory: linearizability is proved for programs without create_group_snapshot / rollback_group_to_snapshot (class memory-snapshot-two-locks); those two and save_message-vs-rollback are refuted with two-thread witnesses",
        ],
    },
    "C14": {
        "props_file": "Props/C14.v",
        "gen": ["sites"],
        "static_finder": ["python3", "/verif/tools/c14_report.py"],
        "harness": [
            {"bin": "log_diff", "model": False, "quick": ["--rounds", "1"], "thorough": ["--rounds", "4"]},
        ],
        "trusted_base": [
            "translator tools/translate/sites.py: Rust lexer/sink extraction (tracing macros, #[error] attributes, error constructors, failure_reason, manual Display/Debug impls, String-error functions) and its expression classifier table (mirrored as data in Gen/Sites.v `classifier_table`); default class of an unmatched expression is Benign",
            "ThirdParty class: Display/Debug of rusqlite, serde_json, tls_codec, openmls, hex, nostr, keyring errors is assumed not to embed the sensitive values (validated only dynamically by log_diff)",
            "log_diff scenarios validate translator completeness only for the log sites they reach",
        ],
        "assumptions": [
            "a sink leaks only through its interpolated arguments (static format text is not sensitive)",
            "derive(Debug) of Ok-result types (Group, Message, Welcome ...) is outside the property's quantification (Err values, MessageProcessingResult, log records, config/secret types)",
        ],
    },
    "C16": {
        "props_file": "Props/C16.v",
        "gen": [],
        "harness": [
            {"bin": "welcome_diff", "model": True, "stateful": True, "name": "welcome_diff-mem",
             "quick": ["--backend", "mem", "--seqs", "40", "--len", "14"], "thorough": ["--backend", "mem", "--seqs", "1500", "--len", "20"]},
            {"bin": "welcome_diff", "model": True, "stateful": True, "name": "welcome_diff-sqlite",
             "quick": ["--backend", "sqlite", "--seqs", "15", "--len", "14"], "thorough": ["--backend", "sqlite", "--seqs", "400", "--len", "20"]},
        ],
        "trusted_base": [
            "modelled, not verified: OpenMLS welcome processing (an invitation is decodable or not, matches one of the recipient's key packages or not, leads to a named state; key packages are last-resort packages that survive acceptance); validate_welcome_event is summarised by one boolean computed by the harness from how the rumor was built",
        ],
        "assumptions": [
            "accept_welcome is a deliberate user action (consent): accepting a stale invitation for a group one is already active in is outside the 'cannot disturb' theorems, which quantify over process_welcome and decline_welcome",
        ],
    },
    "C01": {"props_file": "Props/C01.v", "gen": [], "harness": PROTO_HARNESS, "trusted_base": PROTO_TRUST, "assumptions": PROTO_ASSUME},
    "C02": {"props_file": "Props/C02.v", "gen": [], "harness": PROTO_HARNESS, "trusted_base": PROTO_TRUST, "assumptions": PROTO_ASSUME},
    "C06": {"props_file": "Props/C06.v", "gen": [], "harness": PROTO_HARNESS + [
        {"bin": "codec_diff", "model": True, "canon": ["panic_is_err"], "quick": ["--n", "200"], "thorough": ["--n", "6000"]},
        {"bin": "event_codec_diff", "model": True, "quick": ["--n", "12"], "thorough": ["--n", "300"]},
        {"bin": "storage_diff", "model": True, "stateful": True, "name": "storage_diff-mem", "quick": ["--backend", "mem", "--seqs", "25", "--len", "50"], "thorough": ["--backend", "mem", "--seqs", "600", "--len", "80"]}], "trusted_base": PROTO_TRUST, "assumptions": PROTO_ASSUME},
    "C07": {"props_file": "Props/C07.v", "props_file_extra": ["Props/C07b.v"], "gen": [], "harness": PROTO_HARNESS, "trusted_base": PROTO_TRUST, "assumptions": PROTO_ASSUME},
    "C08": {"props_file": "Props/C08.v", "gen": [], "harness": PROTO_HARNESS + [
        {"bin": "welcome_diff", "model": True, "stateful": True, "name": "welcome_diff-mem",
         "quick": ["--backend", "mem", "--seqs", "40", "--len", "14"], "thorough": ["--backend", "mem", "--seqs", "1500", "--len", "20"]}],
        "trusted_base": PROTO_TRUST + ["invitation path: Mdk/Welcome.v (OpenMLS an oracle: an invitation is decodable or not, targets a held key package or not); welcome_diff compares it with a real recipient"], "assumptions": PROTO_ASSUME},
    "C03": {"props_file": "Props/C03.v", "gen": [], "harness": PROTO_HARNESS, "trusted_base": PROTO_TRUST, "assumptions": PROTO_ASSUME},
    "C05": {"props_file": "Props/C05.v", "gen": [], "harness": PROTO_HARNESS, "trusted_base": PROTO_TRUST, "assumptions": PROTO_ASSUME},
    "C20": {"props_file": "Props/C20.v", "gen": [], "harness": PROTO_HARNESS, "trusted_base": PROTO_TRUST, "assumptions": PROTO_ASSUME},
    "C17": {
        "props_file": "Props/C17.v", "gen": ["media_consts"],
        "harness": [{"bin": "media_diff", "model": True, "quick": ["--n", "150"], "thorough": ["--n", "3000"]}],
        "trusted_base": [
            "translator tools/translate/media_consts.py (regex + brace matching: SUPPORTED_MIME_TYPES, ESCAPE_HATCH, MAX_FILENAME_LENGTH, validate_filename refusals, get_scheme_label arms, ordered pieces of build_hkdf_context/build_aad, key suffix, fallback error arms of decrypt_from_download, group-image HKDF labels)",
            "symbolic crypto: HKDF-SHA256 = free constructor Kdf (injective), ChaCha20-Poly1305 = free constructor Enc with the AEAD law, SHA-256 only compared for equality; exporter secrets of different epochs/groups are distinct names (standard idealisation, not verified)",
            "media_diff establishes the real HKDF info / AAD bytes through the primitives: HKDF-Expand(stored exporter secret, rebuilt info) == derive_encryption_key and ChaCha20-Poly1305(key, nonce, rebuilt AAD, '') == encrypt_data_with_aad; assumes HKDF/Poly1305 collision resistance",
            "modelled, not verified: image crate (format detection, EXIF stripping), OpenMLS past-epoch retention, row order of find_message_epoch_by_tag_content (model: list order)",
        ],
        "assumptions": [
            "Rust &str inputs are valid UTF-8; validate_mime_type's trim() is modelled for ASCII whitespace only",
            "exporter secrets are never pruned (true of both backends at this commit)",
        ],
    },
    "C12": {"props_file": "Props/C12.v", "gen": ["sql_tables", "tx_brackets"],
        "harness": [{"bin": "crash_diff", "model": True, "quick": [], "thorough": ["--tier", "thorough", "--variants", "2"], "timeout_thorough": 3000}],
        "trusted_base": ["hook crates/mdk-sqlite-storage/src/verif_hooks.rs (feature verif-hooks; a tick before every with_connection / direct-lock entry and between the statements of the three brackets; process death = panic + dropping the connection + reopening the file)",
            "translators tools/translate/tx_brackets.py and sql_tables.py (regex + brace matching)",
            "crash_diff's projection of (file,line) tick labels to enclosing fn names, its read/write classification by name prefix, and its recovery rule per call kind (documented in the binary's header)",
            "label semantics of Crash/StmtProg.v (one abstract cell per storage function, guards per call kind); OpenMLS and MDK decision logic are not modelled - the model explains, the enumeration on the real code decides"],
        "assumptions": ["SQLite journaling/fsync: an autocommitted statement and a committed transaction are atomic and durable; an abandoned connection's open transaction is rolled back (simulated by unwinding + close, not by killing the process or cutting power)",
            "a retried call gets the same input (same event / rumor); fresh randomness of a retried local call is abstracted",
            "single process, single thread per database"]},
    "C04": {"props_file": "Props/C04.v", "gen": [], "harness": PROTO_HARNESS, "trusted_base": PROTO_TRUST, "assumptions": PROTO_ASSUME},
    "C11": {"props_file": "Props/C11.v", "gen": [], "harness": PROTO_HARNESS + [STORAGE_HARNESS[1]], "trusted_base": PROTO_TRUST + STORAGE_TRUST[1:],
            "assumptions": PROTO_ASSUME + ["storage layer: the SQLite file is closed and reopened (clean shutdown, unencrypted file) at random positions (about 1 operation in 100) of the storage operation sequences; encrypted reopen is exercised under C13"]},
}
