"""Core of ./check – see DESIGN.md section 2.1.  Python 3 stdlib only."""
import fcntl, glob, hashlib, json, os, re, shutil, subprocess, sys, time

V = "/verif"
CACHE = V + "/.cache"
REPO = "/repo"
COQ = V + "/coq"
TARGET = CACHE + "/target"
MODEL_RUN = CACHE + "/ocaml/model_run"

sys.path.insert(0, V + "/lib")
from registry import REGISTRY, TRUSTED_COMMON  # noqa: E402

ALLOWED_AXIOMS = {
    # stdlib axioms that may appear (each must also be named in DESIGN.md section 9 when it does)
    "functional_extensionality_dep", "proof_irrelevance", "JMeq_eq", "classic", "Eqdep.Eq_rect_eq.eq_rect_eq",
    "eq_rect_eq", "propositional_extensionality",
}
FORBIDDEN = re.compile(r"\b(Admitted|admit|Axiom|Axioms|Parameter|Parameters|Conjecture|Admit Obligations|bypass_check)\b|Unset\s+Guard|Unset\s+Positivity|Unset\s+Universe|type-in-type|impredicative-set")


def sh(cmd, timeout=3600, cwd=None, env=None, stdin=None):
    e = dict(os.environ)
    e.update({"CARGO_NET_OFFLINE": "true"})
    if env:
        e.update(env)
    try:
        p = subprocess.run(cmd, shell=isinstance(cmd, str), cwd=cwd, env=e, timeout=timeout, stdin=stdin,
                           stdout=subprocess.PIPE, stderr=subprocess.STDOUT, text=True, errors="replace")
        return p.returncode, p.stdout
    except subprocess.TimeoutExpired as ex:
        out = ex.stdout if isinstance(ex.stdout, str) else (ex.stdout or b"").decode(errors="replace")
        return 124, out + "\n[timeout after %ss]" % timeout


class Lock:
    """Build steps are serialised across concurrently running checks."""
    def __init__(self, name="build"):
        os.makedirs(CACHE, exist_ok=True)
        self.f = open(CACHE + "/%s.lock" % name, "w")
    def __enter__(self):
        fcntl.flock(self.f, fcntl.LOCK_EX)
    def __exit__(self, *a):
        fcntl.flock(self.f, fcntl.LOCK_UN)


# ------------------------------------------------------------------ translate
def translate(names):
    """Regenerate coq/Gen/*.v from /repo's working tree.  Returns list of (name, ok, message)."""
    res = []
    for n in names:
        rc, out = sh([sys.executable, "%s/tools/translate/%s.py" % (V, n)], timeout=300)
        res.append((n, rc == 0, out.strip()[-2000:]))
    return res


# ------------------------------------------------------------------ prove
def coq_makefile():
    mk, proj = COQ + "/Makefile", COQ + "/_CoqProject"
    if not os.path.exists(mk) or os.path.getmtime(mk) < os.path.getmtime(proj):
        sh("coq_makefile -f _CoqProject -o Makefile", cwd=COQ, timeout=120)


def strip_comments(src):
    out, depth, i = [], 0, 0
    while i < len(src):
        if src.startswith("(*", i):
            depth += 1; i += 2
        elif src.startswith("*)", i) and depth > 0:
            depth -= 1; i += 2
        else:
            if depth == 0:
                out.append(src[i])
            i += 1
    return "".join(out)


def grep_forbidden():
    bad = []
    for f in glob.glob(COQ + "/**/*.v", recursive=True):
        body = strip_comments(open(f).read())
        for ln, line in enumerate(body.splitlines(), 1):
            if FORBIDDEN.search(line):
                bad.append("%s:%d: %s" % (os.path.relpath(f, V), ln, line.strip()[:120]))
    return bad


def theorem_names(props_file):
    src = strip_comments(open(COQ + "/" + props_file).read())
    return re.findall(r"^\s*(?:Theorem|Lemma|Example|Corollary)\s+([A-Za-z0-9_']+)", src, re.M)


def prove(prop, spec, tier):
    """make Props/Cxx.vo, then print the assumptions of every theorem in it through a generated audit file."""
    coq_makefile()
    pfiles = [spec["props_file"]] + list(spec.get("props_file_extra", []))
    target = " ".join(f[:-2] + ".vo" for f in pfiles)
    if tier == "thorough":
        pass  # a clean rebuild is done by `make clean` in thorough_setup (see main)
    rc, log = sh("make -j16 %s" % target, cwd=COQ, timeout=2400)
    names_by_file = [(f, theorem_names(f)) for f in pfiles]
    names = [n for _, ns in names_by_file for n in ns]
    result = {"target": target, "obligations": len(names), "discharged": 0, "failed": [], "assumptions": {},
              "log_tail": log[-3000:], "ok": rc == 0}
    if rc != 0:
        m = re.findall(r'File "\./([^"]+)", line (\d+)', log)
        result["failed"] = ["%s:%s" % x for x in m] or ["make failed"]
        # which theorems still go through?  try to locate the failing file; all theorems count as undischarged
        return result
    adir = CACHE + "/audit"
    os.makedirs(adir, exist_ok=True)
    af = "%s/Audit_%s.v" % (adir, prop)
    with open(af, "w") as f:
        for pf in pfiles:
            f.write("Require Import %s.\n" % ("MDK." + pf[:-2].replace("/", ".")))
        for n in names:
            f.write('Goal True. idtac "@@BEGIN %s". Abort.\nPrint Assumptions %s.\n' % (n, n))
    rc, out = sh("coqc -Q %s MDK %s" % (COQ, af), cwd=adir, timeout=600)
    if rc != 0:
        result["ok"] = False
        result["failed"] = ["audit: " + out[-500:]]
        return result
    chunks = out.split("@@BEGIN ")[1:]
    for ch in chunks:
        name, _, body = ch.partition("\n")
        name = name.strip()
        if "Closed under the global context" in body:
            result["assumptions"][name] = []
            result["discharged"] += 1
        else:
            ax = re.findall(r"^([A-Za-z0-9_.']+)\s*:", body, re.M)
            result["assumptions"][name] = ax
            if all(a.split(".")[-1] in ALLOWED_AXIOMS or a in ALLOWED_AXIOMS for a in ax) and ax:
                result["discharged"] += 1
            else:
                result["ok"] = False
                result["failed"].append("%s depends on disallowed assumptions %s" % (name, ax))
    bad = grep_forbidden()
    if bad:
        result["ok"] = False
        result["failed"] += ["forbidden token: " + b for b in bad]
    if tier == "thorough" and result["ok"]:
        # independent re-check of the compiled files (and everything they depend on) with coqchk, which also reports the
        # axioms, type-in-type / unsafe-fixpoint / assumed-positivity use of the whole dependency cone
        mods = " ".join("MDK." + pf[:-2].replace("/", ".") for pf in pfiles)
        rc, out = sh("coqchk -o -silent -Q . MDK %s" % mods, cwd=COQ, timeout=3000)
        summ = out[out.find("CONTEXT SUMMARY"):] if "CONTEXT SUMMARY" in out else out[-800:]
        result["coqchk"] = norm_space(summ)[:600]
        clean = rc == 0 and all(re.search(re.escape(k) + r"\s*<none>", summ) for k in
                                ["Axioms:", "relying on type-in-type:", "relying on unsafe (co)fixpoints:", "positivity is assumed:"])
        if not clean:
            ax = re.findall(r"^\s*([A-Za-z0-9_.']+)\s*$", summ.split("Axioms:")[1].split("* Constants")[0], re.M) if "Axioms:" in summ else []
            if rc != 0 or not ax or not all(a.split(".")[-1] in ALLOWED_AXIOMS for a in ax):
                result["ok"] = False
                result["failed"].append("coqchk: " + norm_space(summ)[:400])
    return result


def norm_space(t):
    return re.sub(r"\s+", " ", t).strip()


# ------------------------------------------------------------------ harness / model
def build_harness(bins):
    """Build only the harness binaries this property needs (a broken unrelated binary must not break the check)."""
    lock_src, lock_dst = REPO + "/Cargo.lock", V + "/harness/Cargo.lock"
    if not os.path.exists(lock_dst):
        shutil.copy(lock_src, lock_dst)
    cmd = "cargo build --offline " + " ".join("--bin " + b for b in sorted(set(bins)))
    rc, out = sh(cmd, cwd=V + "/harness", timeout=3000)
    if rc != 0 and "Cargo.lock" in out:
        shutil.copy(lock_src, lock_dst)
        rc, out = sh(cmd, cwd=V + "/harness", timeout=3000)
    return rc == 0, out[-4000:]


def build_model():
    rc, out = sh([V + "/tools/build_model.sh"], timeout=1500)
    return rc == 0, out[-3000:]


def canon(line, rules):
    if "panic_is_err" in rules and line.startswith("PANIC"):
        return "ERR"
    return line


def run_harness(prop, h, tier, seed, extra=None):
    out = "%s/run/%s-%s" % (CACHE, prop, h.get("name", h["bin"]))
    shutil.rmtree(out, ignore_errors=True)
    os.makedirs(out)
    args = [TARGET + "/debug/" + h["bin"], "--out", out] + list(h.get(tier, h.get("quick", []))) + (extra or [])
    rc, log = sh(args, timeout=h.get("timeout_" + tier, 3000), env={"VERIF_SEED": str(seed), "VERIF_TIER": tier, "VERIF_PROP": prop})
    res = {"bin": h["bin"], "name": h.get("name", h["bin"]), "out": out, "rc": rc, "log": log[-3000:], "disagreements": [], "oracle": [], "stats": {}}
    if rc != 0:
        return res
    try:
        res["stats"] = json.load(open(out + "/stats.json"))
    except Exception as e:  # noqa
        res["rc"] = 99; res["log"] += "\nstats.json unreadable: %s" % e
        return res
    if h.get("model"):
        with open(out + "/cases.txt") as fin, open(out + "/model.txt", "w") as fout:
            p = subprocess.run([MODEL_RUN], stdin=fin, stdout=fout, stderr=subprocess.PIPE, timeout=3000)
        if p.returncode != 0:
            res["rc"] = 98; res["log"] += "\nmodel_run failed: " + p.stderr.decode(errors="replace")[-500:]
            return res
        cases = open(out + "/cases.txt").read().splitlines()
        impl = open(out + "/impl.txt").read().splitlines()
        model = open(out + "/model.txt").read().splitlines()
        if not (len(cases) == len(impl) == len(model)):
            res["rc"] = 97; res["log"] += "\nline count mismatch cases=%d impl=%d model=%d" % (len(cases), len(impl), len(model))
            return res
        rules = h.get("canon", [])
        last_reset = 0
        for i, (c, a, b) in enumerate(zip(cases, impl, model)):
            if c.endswith(" RESET"):
                last_reset = i
            if canon(a, rules) != canon(b, rules):
                seq = cases[last_reset:i + 1] if h.get("stateful") else [c]
                res["disagreements"].append({"index": i, "case": c, "impl": a, "model": b, "sequence": seq})
                if len(res["disagreements"]) >= 50:
                    break
    for line in open(out + "/oracle.txt").read().splitlines():
        parts = line.split("\t")
        if len(parts) >= 4:
            res["oracle"].append({"property": parts[0], "class": parts[1], "what": parts[2], "replay_case": parts[3].split(" || ")})
    return res


# ------------------------------------------------------------------ findings
def load_findings():
    res = []
    p = V + "/known_findings.jsonl"
    if os.path.exists(p):
        for line in open(p):
            line = line.strip()
            if line and not line.startswith("#"):
                res.append(json.loads(line))
    return res


def write_replay(prop, seed, k, doc):
    d = V + "/replays"
    os.makedirs(d, exist_ok=True)
    path = "%s/%s-seed%s-%d.json" % (d, prop, seed, k)
    json.dump(doc, open(path, "w"), indent=1)
    return path


# ------------------------------------------------------------------ main
def run_check(prop, tier, seed, replay=None):
    t0 = time.time()
    spec = REGISTRY[prop]
    lines, violations, known_hits = [], [], {}
    findings = [f for f in load_findings() if f.get("property") == prop and f.get("status") == "finding"]
    known_classes = {f["class"]: f for f in findings}

    tie_breaks = []          # (name, detail): broken proofs / translators / correspondences
    with Lock():
        tr = translate(spec.get("gen", []))
        for n, ok, msg in tr:
            if not ok:
                tie_breaks.append(("translator:" + n, msg))
        pr = prove(prop, spec, tier) if not replay else {"ok": True, "obligations": 0, "discharged": 0, "assumptions": {}, "failed": [], "target": ""}
        if not pr["ok"]:
            tie_breaks.append(("proof:" + spec["props_file"], "; ".join(pr["failed"])[:1500] + "\n" + pr.get("log_tail", "")[-1200:]))
        hb_ok, hb_log = build_harness([h["bin"] for h in spec["harness"]]) if spec.get("harness") else (True, "")
        mb_ok, mb_log = build_model() if any(h.get("model") for h in spec.get("harness", [])) else (True, "")
    if not hb_ok:
        tie_breaks.append(("harness-build", hb_log[-1500:]))
    if not mb_ok:
        tie_breaks.append(("model-build", mb_log[-1500:]))

    runs = []
    if hb_ok and mb_ok:
        for h in spec.get("harness", []):
            extra = None
            if replay:
                if replay.get("harness") != h["bin"]:
                    continue
                cf = CACHE + "/run/replay_cases.txt"
                os.makedirs(CACHE + "/run", exist_ok=True)
                open(cf, "w").write("\n".join(replay.get("cases", [])) + "\n")
                extra = ["--cases", cf]
            r = run_harness(prop, h, tier, seed, extra)
            runs.append(r)
            if r["rc"] != 0:
                tie_breaks.append(("harness-run:" + h["bin"], r["log"][-1500:]))
            for d in r["disagreements"]:
                tie_breaks.append(("correspondence:%s" % h["bin"], json.dumps(d)))

    # property-oracle failures on the implementation = concrete failing inputs
    k = 0
    for r in runs:
        for o in r["oracle"]:
            if o["property"] != prop:
                continue
            if o["class"] and o["class"] in known_classes:
                known_hits.setdefault(o["class"], o)
                continue
            k += 1
            if k <= 5:
                path = write_replay(prop, seed, k, {"property": prop, "kind": "oracle-failure", "harness": r["bin"], "what": o["what"],
                                                    "class": o["class"], "cases": o["replay_case"], "seed": seed})
                violations.append(path)
    # a static finder (C14): when the proof over the regenerated table breaks, name the offending sites - they are the
    # concrete failing input of a "for every site" property
    if not violations and tie_breaks and spec.get("static_finder") and not replay:
        rc, out = sh(spec["static_finder"], timeout=600)
        try:
            rep = json.loads(out[out.index("{"):])
            for off in rep.get("offending", [])[:5]:
                k += 1
                path = write_replay(prop, seed, k, {"property": prop, "kind": "offending-site", "found_by": "static finder after tie break",
                                                    "site": off, "broken": [n for n, _ in tie_breaks[:10]], "seed": seed, "cases": []})
                violations.append(path)
        except Exception:  # noqa
            pass
    searched = 0
    if not violations and tie_breaks and hb_ok and mb_ok and not replay:
        # a tie broke: search the implementation for a concrete input on which the property itself now fails
        # (more histories / other seeds through the same property oracles)
        # (VERIF_SEARCH_ATTEMPTS=0 skips the search - used only when re-running archived seeds in bulk)
        for attempt in range(1, 1 + int(os.environ.get("VERIF_SEARCH_ATTEMPTS", "3"))):
            for h in spec.get("harness", []):
                if violations:
                    break
                hs = dict(h); hs["quick"] = h.get("search", h.get("thorough", h.get("quick", []))); hs["name"] = h.get("name", h["bin"]) + "-search"
                r = run_harness(prop, hs, "quick", int(seed) + 7919 * attempt)
                searched += r.get("stats", {}).get("evaluations", 0)
                for o in r["oracle"]:
                    if o["property"] != prop or (o["class"] and o["class"] in known_classes):
                        continue
                    k += 1
                    path = write_replay(prop, seed, k, {"property": prop, "kind": "oracle-failure", "found_by": "search after tie break",
                                                        "harness": r["bin"], "what": o["what"], "class": o["class"], "cases": o["replay_case"],
                                                        "seed": int(seed) + 7919 * attempt, "broken": [n for n, _ in tie_breaks[:10]]})
                    violations.append(path)
                    break
            if violations:
                break
    if not violations and tie_breaks:
        # a proof / translator / correspondence no longer checks and no failing input was found
        path = write_replay(prop, seed, 0, {"property": prop, "kind": "tie-broken", "no_failing_input_found": True,
                                            "broken": [{"name": n, "detail": d} for n, d in tie_breaks[:10]],
                                            "harness": next((n.split(":")[1] for n, _ in tie_breaks if n.startswith("correspondence:")), None),
                                            "cases": next((json.loads(d)["sequence"] for n, d in tie_breaks if n.startswith("correspondence:")), []), "seed": seed})
        violations.append(path + " no-failing-input-found")

    for cls, o in sorted(known_hits.items()):
        lines.append("KNOWN-FINDING: property=%s %s [%s]" % (prop, known_classes[cls]["what"], cls))
    for v in violations:
        lines.append("VIOLATION property=%s replay=%s" % (prop, v))

    # evidence
    stats_all = [r["stats"] for r in runs if r.get("stats")]
    ev = {
        "property_id": prop, "tier": tier, "seed": int(seed), "level": "proof",
        "coverage": {
            "obligations": pr["obligations"], "discharged": pr["discharged"],
            "checker_cmd": "make -C /verif/coq -j16 %s && coqc Audit_%s.v (Print Assumptions of every theorem in %s)%s" % (
                pr.get("target", ""), prop, spec["props_file"], " && coqchk -o -silent" if tier == "thorough" else ""),
            "trusted_base": TRUSTED_COMMON + spec.get("trusted_base", []),
            "theorems": pr.get("assumptions", {}), "coqchk": pr.get("coqchk", "not run (quick tier)"),
            "evaluations": sum(s.get("evaluations", 0) for s in stats_all),
            "distinct_nontrivial": sum(s.get("distinct_nontrivial", 0) for s in stats_all),
            "rule": " || ".join(s.get("rule", "") for s in stats_all),
            "samples": [str(x)[:400] for s in stats_all for x in s.get("samples", [])][:8] or ["(proof only)"],
            "input_distribution": {r["name"]: r["stats"].get("distribution", {}) for r in runs if r.get("stats")},
            "traces_validated_against_impl": sum(s.get("evaluations", 0) for s in stats_all),
            "correspondence_disagreements": sum(len(r["disagreements"]) for r in runs),
            "oracle_failures_this_property": k, "known_finding_hits": sorted(known_hits),
            "translators": [{"name": n, "ok": ok} for n, ok, _ in tr],
            "tie_breaks": [n for n, _ in tie_breaks], "failing_input_search_evaluations": searched,
        },
        "assumptions": spec.get("assumptions", []),
        "wall_s": round(time.time() - t0, 2),
        "violations": len(violations),
    }
    if not replay:
        os.makedirs(V + "/evidence", exist_ok=True)
        json.dump(ev, open("%s/evidence/%s.json" % (V, prop), "w"), indent=1)
    print("check %s tier=%s seed=%s: obligations %d/%d discharged, %d cases, %d disagreements, %d known-finding classes hit, %d violations, %.1fs" % (
        prop, tier, seed, pr["discharged"], pr["obligations"], ev["coverage"]["evaluations"], ev["coverage"]["correspondence_disagreements"],
        len(known_hits), len(violations), time.time() - t0))
    for n, d in tie_breaks[:6]:
        print("  broken: %s :: %s" % (n, d.replace("\n", " | ")[:500]))
    for l in lines:
        print(l)
    return 1 if violations else 0


def main(argv):
    if not argv or argv[0] not in REGISTRY:
        print("usage: ./check <%s> [--tier quick|thorough] [--replay file]" % "|".join(sorted(REGISTRY)))
        return 2
    prop = argv[0]
    tier = os.environ.get("VERIF_TIER", "quick")
    replay = None
    if "--tier" in argv:
        tier = argv[argv.index("--tier") + 1]
    if tier not in ("quick", "thorough"):
        tier = "quick"
    if "--replay" in argv:
        replay = json.load(open(argv[argv.index("--replay") + 1].split(" ")[0]))
    seed = os.environ.get("VERIF_SEED", "1")
    try:
        seed = str(int(seed))
    except ValueError:
        seed = str(int(hashlib.sha256(seed.encode()).hexdigest()[:8], 16))
    return run_check(prop, tier, seed, replay)
