(* Storage family: ST case lines evaluated on Store/Contract.v (stateful: ST RESET starts a fresh store). *)
open BinNums
open Drv_common
module L = Stdlib.List
(* ------------------------------------------------------------------ storage contract (Store/Contract.v) *)
module C = Contract
let ni s = n_of_int (int_of_string s)
let oi s = if s = "-" then None else Some (ni s)
let li s = L.map ni (split_on ',' s)
let si n = string_of_int (int_of_n n)
let so = function None -> "-" | Some n -> si n
let sl l = if l = [] then "-" else String.concat "," (L.map si l)
let sorted_ints l = L.sort compare (L.map int_of_n l)
let sl_sorted l = if l = [] then "-" else String.concat "," (L.map string_of_int (sorted_ints l))
let joinl sort v = let v = if sort then L.sort compare v else v in if v = [] then "-" else String.concat ";" v

let show_group (g : C.group) =
  Printf.sprintf "g(%s,%s,%s,%s,%s,%s,%s,%s,%s,%s,%s,%s)" (si g.g_id) (si g.g_nostr) (si g.g_name) (si g.g_descr)
    (sl_sorted g.g_admins) (si g.g_img) (so g.g_last_id) (so g.g_last_at) (so g.g_last_proc) (si g.g_epoch) (si g.g_state) (si g.g_self_update)
let show_msg (m : C.msg) =
  Printf.sprintf "m(%s,%s,%s,%s,%s,%s,%s,%s,%s,%s,%s)" (si m.m_id) (si m.m_group) (si m.m_pubkey) (si m.m_kind) (si m.m_created)
    (si m.m_processed) (si m.m_content) (si m.m_tags) (si m.m_wrapper) (so m.m_epoch) (si m.m_state)
let show_pmsg (p : C.pmsg) =
  Printf.sprintf "p(%s,%s,%s,%s,%s,%s,%s)" (si p.p_wrapper) (so p.p_msg) (si p.p_at) (so p.p_epoch) (so p.p_group) (si p.p_state) (so p.p_reason)
let show_welcome (w : C.welcome) =
  Printf.sprintf "w(%s,%s,%s,%s,%s,%s)" (si w.w_id) (si w.w_group) (si w.w_nostr) (si w.w_payload) (si w.w_state) (si w.w_wrapper)
let show_pw (p : C.pwelcome) =
  Printf.sprintf "pw(%s,%s,%s,%s,%s)" (si p.pw_wrapper) (so p.pw_welcome) (si p.pw_at) (si p.pw_state) (so p.pw_reason)

(* which listings are order-significant is decided per operation, as in the harness *)
let show_res (opname : string) (r : C.res) : string =
  match r with
  | C.ROk -> "ok" | C.RErr -> "err" | C.RNotFound -> "notfound"
  | C.RGroup g -> "group:" ^ (match g with Some g -> show_group g | None -> "-")
  | C.RGroups l -> "groups:" ^ joinl true (L.map show_group l)
  | C.RMsg m -> "msg:" ^ (match m with Some m -> show_msg m | None -> "-")
  | C.RMsgs l -> "msgs:" ^ joinl (opname <> "Messages") (L.map show_msg l)
  | C.RPmsg p -> "pmsg:" ^ (match p with Some p -> show_pmsg p | None -> "-")
  | C.RPmsgs l -> "pmsgs:" ^ joinl true (L.map show_pmsg l)
  | C.RIds l -> "ids:" ^ sl_sorted l
  | C.RNum n -> "num:" ^ so n
  | C.RWelcome w -> "welcome:" ^ (match w with Some w -> show_welcome w | None -> "-")
  | C.RWelcomes l -> "welcomes:" ^ joinl false (L.map show_welcome l)
  | C.RPwelcome p -> "pwelcome:" ^ (match p with Some p -> show_pw p | None -> "-")
  | C.RSnaps l -> "snaps:" ^ sl_sorted (L.map fst l)
  | C.RCount n -> "count:" ^ si n
  | C.RVal v -> "val:" ^ so v

let huge = n_of_int max_int  (* stands for offsets beyond any list length (usize::MAX, i64::MAX+1) *)
let parse_op (t : string list) : C.op =
  let a = Array.of_list t in
  let n i = ni a.(i) in
  match a.(0) with
  | "SaveGroup" -> C.SaveGroup { C.g_id = n 1; g_nostr = n 2; g_name = n 3; g_descr = n 4; g_admins = li a.(5); g_img = n 6;
                                 g_last_id = oi a.(7); g_last_at = oi a.(8); g_last_proc = oi a.(9); g_epoch = n 10; g_state = n 11; g_self_update = n 12 }
  | "FindGroup" -> C.FindGroup (n 1) | "FindByNostr" -> C.FindByNostr (n 1) | "AllGroups" -> C.AllGroups
  | "Admins" -> C.Admins (n 1) | "Relays" -> C.Relays (n 1) | "ReplaceRelays" -> C.ReplaceRelays (n 1, li a.(2))
  | "GetSecret" -> C.GetSecret (n 1, n 2) | "SaveSecret" -> C.SaveSecret (n 1, n 2, n 3)
  | "SaveMsg" -> C.SaveMsg { C.m_id = n 1; m_group = n 2; m_pubkey = n 3; m_kind = n 4; m_created = n 5; m_processed = n 6; m_content = n 7;
                             m_tags = n 8; m_wrapper = n 9; m_epoch = oi a.(10); m_state = n 11 }
  | "FindMsg" -> C.FindMsg (n 1, n 2)
  | "Messages" -> C.Messages (n 1, n 2, (if a.(3) = "max" || a.(3) = "i64max1" then huge else n 3), n 4)
  | "LastMessage" -> C.LastMessage (n 1, n 2)
  | "SavePmsg" -> C.SavePmsg { C.p_wrapper = n 1; p_msg = oi a.(2); p_at = n 3; p_epoch = oi a.(4); p_group = oi a.(5); p_state = n 6; p_reason = oi a.(7) }
  | "FindPmsg" -> C.FindPmsg (n 1)
  | "InvalidateMsgs" -> C.InvalidateMsgs (n 1, n 2) | "InvalidatePmsgs" -> C.InvalidatePmsgs (n 1, n 2)
  | "FindFailedRetry" -> C.FindFailedRetry (n 1) | "FindInvalidatedMsgs" -> C.FindInvalidatedMsgs (n 1)
  | "FindInvalidatedPmsgs" -> C.FindInvalidatedPmsgs (n 1) | "MarkRetryable" -> C.MarkRetryable (n 1)
  | "SaveWelcome" -> C.SaveWelcome { C.w_id = n 1; w_group = n 2; w_nostr = n 3; w_payload = n 4; w_state = n 5; w_wrapper = n 6 }
  | "FindWelcome" -> C.FindWelcome (n 1) | "PendingWelcomes" -> C.PendingWelcomes (n 1, n 2)
  | "SavePwelcome" -> C.SavePwelcome { C.pw_wrapper = n 1; pw_welcome = oi a.(2); pw_at = n 3; pw_state = n 4; pw_reason = oi a.(5) }
  | "FindPwelcome" -> C.FindPwelcome (n 1)
  | "MlsWrite" -> C.MlsWrite (n 1, n 2, n 3, n 4) | "MlsRead" -> C.MlsRead (n 1, n 2, n 3) | "MlsDelete" -> C.MlsDelete (n 1, n 2, n 3)
  | "GlobalWrite" -> C.GlobalWrite (n 1, n 2, n 3) | "GlobalRead" -> C.GlobalRead (n 1, n 2) | "GlobalDelete" -> C.GlobalDelete (n 1, n 2)
  | "Snapshot" -> C.Snapshot (n 1, n 2, n 3) | "Rollback" -> C.Rollback (n 1, n 2) | "Release" -> C.Release (n 1, n 2)
  | "ListSnaps" -> C.ListSnaps (n 1) | "Prune" -> C.Prune (n 1)
  | _ -> failwith "op"

let st_state = ref C.empty
let handle_storage (t : string list) : string =
  match t with
  | ["RESET"] -> st_state := C.empty; "RESET"
  | ["Reopen"] -> st_state := C.reopen !st_state; "ok"
  | ["UpdPtr"; a; pa; i; ma; mpa; mi] ->
    let p = ((oi a, oi pa), oi i) in
    let m = { C.m_id = ni mi; m_group = n_of_int 0; m_pubkey = n_of_int 0; m_kind = n_of_int 9; m_created = ni ma; m_processed = ni mpa;
              m_content = n_of_int 0; m_tags = n_of_int 0; m_wrapper = n_of_int 0; m_epoch = None; m_state = n_of_int 1 } in
    let ((a', pa'), i') = C.upd_ptr p m in
    Printf.sprintf "ptr:%s,%s,%s moved=%d" (so a') (so pa') (so i') (if C.upd_ptr p m = p then 0 else 1)
  | opname :: _ ->
    let (s', r) = C.step !st_state (parse_op t) in
    st_state := s'; show_res opname r
  | [] -> "UNKNOWN-CASE"


let () = register "ST" handle_storage
