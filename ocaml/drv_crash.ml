(* Crash family (C12): CR case lines evaluated on Crash/StmtProg.v.
   CR <kind> <write units recorded on the implementation, comma separated>
   Result: the model's program for <kind> (StmtProg.prog_of_kind rendered by StmtProg.show_prog), "-" if empty.
   The recorded sequence travels in the case line for the replay file only; the comparison is program vs. recorded units. *)
open Drv_common
module L = Stdlib.List

let bit b i = if b then 1 lsl i else 0
let char_of_ascii (Ascii.Ascii (b0, b1, b2, b3, b4, b5, b6, b7)) =
  Char.chr (bit b0 0 + bit b1 1 + bit b2 2 + bit b3 3 + bit b4 4 + bit b5 5 + bit b6 6 + bit b7 7)
let ascii_of_char c =
  let n = Char.code c in let b i = (n lsr i) land 1 = 1 in
  Ascii.Ascii (b 0, b 1, b 2, b 3, b 4, b 5, b 6, b 7)
let rec ocaml_of_coq = function String0.EmptyString -> "" | String0.String (a, r) -> String.make 1 (char_of_ascii a) ^ ocaml_of_coq r
let coq_of_ocaml (s : string) = let r = ref String0.EmptyString in
  for i = String.length s - 1 downto 0 do r := String0.String (ascii_of_char s.[i], !r) done; !r

let () = register "CR" (fun t ->
  match t with
  | kind :: _ -> let p = ocaml_of_coq (StmtProg.show_prog (coq_of_ocaml kind)) in if p = "" then "-" else p
  | _ -> "BAD-CASE")
