(* Concurrency family: conc_stress is an oracle-only harness; its CS case lines only carry the replay
   information (run index, thread count, backend, per-run seed).  The model side has nothing to evaluate. *)
let () = Drv_common.register "CS" (fun _ -> "ok")
