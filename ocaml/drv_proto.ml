(* Protocol family: PR case lines evaluated on Mdk/Engine.v (stateful: PR RESET starts a fresh world of clients). *)
open BinNums
open Drv_common
module L = Stdlib.List
module E = Engine

let clients : E.client array ref = ref [||]
let events : (int, E.event) Hashtbl.t = Hashtbl.create 64
let joined : bool array ref = ref [||]
let retention : int ref = ref 5

let ni s = n_of_int (int_of_string s)
let si n = string_of_int (int_of_n n)
let so = function None -> "-" | Some n -> si n

let rk_name = function
  | E.RApp -> "App" | E.RCommit -> "Commit" | E.RPending -> "PendingProposal" | E.RAuto -> "AutoCommit"
  | E.RIgnored -> "IgnoredProposal" | E.RUnproc -> "Unprocessable" | E.RPrevFailed -> "PreviouslyFailed"
  | E.RErr -> "Err" | E.ROk -> "ok"

let fingerprint (c : E.client) (res : string) (ev : int option) : string =
  let k = c.kc in
  let dd = match ev with
    | Some e -> (match AMap.aget BinNat.N.eqb (n_of_int e) c.dedup with
        | Some r -> si r.d_state ^ "/" ^ so r.d_epoch | None -> "-")
    | None -> "-" in
  let ms = L.sort compare (L.map (fun (i, (m : E.mrec)) -> (int_of_n i, int_of_n m.m_state, int_of_n m.m_epoch)) c.msgs) in
  let msgs = if ms = [] then "-" else String.concat "," (L.map (fun (i, s, e) -> Printf.sprintf "%d:%d:%d" i s e) ms) in
  let last = match k.k_last with Some (_, m) -> si m | None -> "-" in
  Printf.sprintf "res=%s ep=%s mls=%s st=%s act=%d pend=%d props=%d snaps=%d dd=%s name=g%s last=%s msgs=%s"
    res (si k.k_rec_epoch) (si k.k_epoch) (if k.k_active then si k.k_cur else "x") (if k.k_active then 1 else 0) (if k.k_pending <> None then 1 else 0)
    (L.length k.k_props) (L.length c.queue) dd (si k.k_data) last msgs

let mk_event id kind facts ts msg : E.event =
  let g k d = try L.assoc k facts with Not_found -> d in
  { E.e_id = n_of_int id; e_kind = n_of_int kind; e_ts = ni ts; e_key = ni (g "idkey" "0"); e_author = ni (g "author" "0");
    e_state = ni (g (if kind = 0 then "parent" else "state") "0"); e_epoch = ni (g (if kind = 0 then "pepoch" else "epoch") "0");
    e_auth = (g "auth" "1" = "1"); e_data = ni (g "data" "0"); e_msg = n_of_int msg;
    e_removes = L.map ni (split_on ',' (g "removes" "-")); e_refs = L.map ni (split_on ',' (g "refs" "-")); e_bad = ni (g "bad" "0") }

let handle_proto (toks : string list) : string =
  (* split at the facts separator "|" *)
  let rec split acc = function [] -> (L.rev acc, []) | "|" :: r -> (L.rev acc, r) | x :: r -> split (x :: acc) r in
  let (t, f) = split [] toks in
  let facts = kv f in
  let refused = (try L.assoc "refused" facts = "1" with Not_found -> false) in
  let a = Array.of_list t in
  let i k = int_of_string a.(k) in
  match a.(0) with
  | "RESET" ->
    let n = i 1 and mask = i 2 and ret = i 3 in
    let spare = if Array.length a > 5 then i 5 else 0 in
    Hashtbl.reset events;
    clients := Array.init (n + spare) (fun j -> E.init_client (n_of_int j) (j = 0 || (mask lsr j) land 1 = 1) (n_of_int ret));
    joined := Array.init (n + spare) (fun j -> j < n);
    retention := ret;
    "RESET"
  | "JOIN" ->   (* PR JOIN <j> <ev> | state= epoch= data= : spare client j joins through the welcome of add-commit ev *)
    let j = i 1 in
    if refused then "skip" else begin
      let g k d = try L.assoc k facts with Not_found -> d in
      !clients.(j) <- E.join_client (n_of_int j) false (n_of_int !retention) (ni (g "state" "0")) (ni (g "epoch" "1")) (ni (g "data" "0"));
      !joined.(j) <- true;
      fingerprint !clients.(j) "ok" None end
  | "COMMIT" ->
    let m = i 1 and ev = i 3 in
    if refused then fingerprint !clients.(m) "Err" None else begin
      let e = mk_event ev 0 facts a.(4) 0 in
      Hashtbl.replace events ev e;
      !clients.(m) <- E.committed !clients.(m) e;
      fingerprint !clients.(m) "ok" (Some ev) end
  | "MERGE" ->
    let m = i 1 and ev = i 2 in
    let (c, r) = E.merge_pending !clients.(m) in !clients.(m) <- c; fingerprint c (rk_name r) (Some ev)
  | "RESTART" ->
    let m = i 1 in
    !clients.(m) <- (if Array.length a > 2 then E.restart_with !clients.(m) (n_of_int (i 2)) else E.restart !clients.(m));
    fingerprint !clients.(m) "ok" None
  | "CLEAR" ->
    let m = i 1 in !clients.(m) <- E.clear_pending !clients.(m); fingerprint !clients.(m) "ok" None
  | "SEND" | "SENDF" ->
    let m = i 1 and ev = i 2 in
    if refused then fingerprint !clients.(m) "Err" None else begin
      let e = mk_event ev 1 facts a.(3) (i 4) in
      Hashtbl.replace events ev e;
      (* a sender that pre-set another message's id files its own copy under that id; receivers recompute the id *)
      (match (try Some (L.assoc "sender_key" facts) with Not_found -> None) with
        | Some k -> !clients.(m) <- E.sent_as !clients.(m) e (n_of_int (int_of_string k))
        | None -> !clients.(m) <- E.sent !clients.(m) e);
      fingerprint !clients.(m) "ok" (Some ev) end
  | "LEAVE" ->
    let m = i 1 and ev = i 2 in
    if refused then fingerprint !clients.(m) "Err" None else begin
      let e = mk_event ev 2 facts a.(3) 0 in
      Hashtbl.replace events ev e;
      !clients.(m) <- E.leave_created !clients.(m) e;
      fingerprint !clients.(m) "ok" (Some ev) end
  | "ADV" ->
    if refused then "ok" else begin
      (* akind "pr": a Remove proposal naming another member, built with the MLS library (kind 2, removes = the victim) *)
      let ev = i 4 in Hashtbl.replace events ev (mk_event ev (if a.(2) = "pr" then 2 else 0) facts a.(5) 0); "ok" end
  | "BAD" ->   (* declaration of a hostile event: PR BAD <ev> <ts> <cls> | bad=<model class> *)
    let ev = i 1 in Hashtbl.replace events ev (mk_event ev 3 facts a.(2) 0); "ok"
  | "DELIVER" ->
    let m = i 1 and ev = i 2 in
    if not !joined.(m) then "skip" else
    (match Hashtbl.find_opt events ev with
     | None -> "skip"
     | Some e ->
       let (c, r) = E.deliver !clients.(m) e in
       !clients.(m) <- c;
       (* an auto-commit creates a new commit event whose facts the harness appended *)
       (match (try Some (L.assoc "autoev" facts) with Not_found -> None) with
        | Some ae ->
          let aev = int_of_string ae in
          let e2 = { (mk_event aev 0 facts (try L.assoc "autots" facts with Not_found -> "0") 0) with
                     E.e_key = ni (try L.assoc "autokey" facts with Not_found -> "0"); e_author = n_of_int m;
                     e_state = c.kc.k_cur; e_epoch = c.kc.k_epoch; e_auth = true; e_removes = [e.e_author]; e_refs = [e.e_id] } in
          Hashtbl.replace events aev e2
        | None -> ());
       fingerprint c (rk_name r) (Some ev) ^ " rb=" ^ si c.rollbacks)
  | _ -> "UNKNOWN-CASE"

let () = register "PR" handle_proto
