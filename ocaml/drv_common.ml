(* Shared helpers of the line-oriented driver for the extracted models, and the handler registry:
   each family file (drv_<family>.ml) registers the first token of the case lines it evaluates. *)
open BinNums
open Varint
module L = Stdlib.List

let rec pos_of_int i = if i = 1 then Coq_xH else if i land 1 = 0 then Coq_xO (pos_of_int (i lsr 1)) else Coq_xI (pos_of_int (i lsr 1))
let n_of_int i = if i = 0 then N0 else Npos (pos_of_int i)
let rec int_of_pos = function Coq_xH -> 1 | Coq_xO p -> 2 * int_of_pos p | Coq_xI p -> 2 * int_of_pos p + 1
let int_of_n = function N0 -> 0 | Npos p -> int_of_pos p

let hexval c = match c with
  | '0'..'9' -> Char.code c - 48 | 'a'..'f' -> Char.code c - 87 | 'A'..'F' -> Char.code c - 55
  | _ -> failwith "hex"
let bytes_of_hex (s : string) : coq_N list =
  if s = "-" || s = "" then [] else begin
    let n = String.length s / 2 in
    let rec go i acc = if i < 0 then acc else go (i - 1) (n_of_int (hexval s.[2*i] * 16 + hexval s.[2*i+1]) :: acc) in
    go (n - 1) []
  end
let hex_of_bytes (l : coq_N list) : string =
  if l = [] then "-" else begin
    let b = Buffer.create 64 in
    L.iter (fun x -> Buffer.add_string b (Printf.sprintf "%02x" (int_of_n x))) l;
    Buffer.contents b
  end
let split_on c s = if s = "" || s = "-" then [] else String.split_on_char c s
let hexlist s = L.map bytes_of_hex (split_on ',' s)
let opt_hex s = if s = "-" then None else Some (bytes_of_hex s)
let show_opt = function None -> "-" | Some b -> hex_of_bytes b
let show_list l = if l = [] then "-" else String.concat "," (L.map hex_of_bytes l)

(* key=value tokens *)
let kv toks = L.filter_map (fun t -> match String.index_opt t '=' with
  | Some i -> Some (String.sub t 0 i, String.sub t (i+1) (String.length t - i - 1)) | None -> None) toks
let get m k = try L.assoc k m with Not_found -> "-"


let handlers : (string, string list -> string) Hashtbl.t = Hashtbl.create 16
let register (tag : string) (f : string list -> string) = Hashtbl.replace handlers tag f
