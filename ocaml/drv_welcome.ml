(* Invitation family: WL case lines evaluated on Mdk/Welcome.v (stateful: WL RESET starts a fresh recipient). *)
open BinNums
open Drv_common
module L = Stdlib.List
module W = Welcome

let fresh () = W.empty_st [(n_of_int 1, true); (n_of_int 2, true); (n_of_int 3, true); (n_of_int 4, true); (n_of_int 5, true)]   (* B's key packages are last-resort packages *)
let st = ref (fresh ())
let inv_ids : (int, int) Hashtbl.t = Hashtbl.create 8      (* invitation index -> rumor id number *)
let id_inv = [(10, 0); (12, 1); (13, 2); (14, 3); (15, 4); (20, 6); (27, 7); (28, 8); (29, 9)]
let si n = string_of_int (int_of_n n)

let fingerprint (res : string) : string =
  let s = !st in
  let g k =
    let joined = match AMap.aget BinNat.N.eqb (n_of_int k) s.mls with Some _ -> 1 | None -> 0 in
    match AMap.aget BinNat.N.eqb (n_of_int k) s.groups with
    | Some r -> Printf.sprintf "g%d=%s/%d/%d/%d" k (si r.g_state) (if r.g_last <> None then 1 else 0) (if r.g_su_required then 1 else 0) joined
    | None -> Printf.sprintf "g%d=-/%d" k joined in
  let ws = L.sort compare (L.filter_map (fun (id, (w : W.wrec)) ->
      match L.assoc_opt (int_of_n id) id_inv with Some i -> Some (i, int_of_n w.w_state) | None -> None) s.welcomes) in
  let wtxt = if ws = [] then "-" else String.concat "," (L.map (fun (i, x) -> Printf.sprintf "%d:%d" i x) ws) in
  let pending = L.length (L.filter (fun (_, (w : W.wrec)) -> int_of_n w.w_state = 0) s.welcomes) in
  Printf.sprintf "res=%s %s %s welcomes=%s pending=%d" res (g 1) (g 2) wtxt pending

let res_name = function W.WOk _ | W.WDone -> "ok" | W.WErr | W.WPrevFailed -> "err"

let handle (toks : string list) : string =
  let rec split acc = function [] -> (L.rev acc, []) | "|" :: r -> (L.rev acc, r) | x :: r -> split (x :: acc) r in
  let (t, f) = split [] toks in
  let facts = kv f in
  let a = Array.of_list t in
  match a.(0) with
  | "RESET" -> st := fresh (); Hashtbl.reset inv_ids; "RESET"
  | "PROCESS" ->
    let g k d = try L.assoc k facts with Not_found -> d in
    let id = if g "id" "-" = "-" then None else Some (n_of_int (int_of_string (g "id" "0"))) in
    (match id with Some i -> Hashtbl.replace inv_ids (int_of_string a.(1)) (int_of_n i) | None -> ());
    let w = { W.i_wrapper = n_of_int (int_of_string a.(2)); i_id = id; i_shape = (g "shape" "1" = "1"); i_decodable = (g "dec" "1" = "1");
              i_kp = n_of_int (int_of_string (g "kp" "0")); i_gid = n_of_int (int_of_string (g "gid" "0")); i_state = n_of_int 1;
              i_epoch = N0; i_data = N0; i_collides = (g "col" "0" = "1") } in
    let (s', r) = W.process_welcome !st w in st := s'; fingerprint (res_name r)
  | "ACCEPT" | "DECLINE" ->
    let id = n_of_int (try Hashtbl.find inv_ids (int_of_string a.(1)) with Not_found -> 999999) in
    let (s', r) = if a.(0) = "ACCEPT" then W.accept_welcome !st id else W.decline_welcome !st id in
    st := s'; fingerprint (res_name r)
  | "SELFUPDATE" ->
    let done_ = (try L.assoc "done" facts = "1" with Not_found -> false) in
    if done_ then st := W.self_updated !st (n_of_int (int_of_string a.(1)));
    fingerprint (if done_ then "ok" else "err")
  | "KICK" ->
    let applied = (try L.assoc "applied" facts = "1" with Not_found -> false) in
    if applied then st := W.evict !st (n_of_int 2);
    fingerprint (if applied then "ok" else "err")
  | "MSG" ->
    let stored = (try L.assoc "stored" facts = "1" with Not_found -> false) in
    if stored then st := W.note_message !st (n_of_int (int_of_string a.(1))) (n_of_int (int_of_string a.(2)));
    fingerprint (if stored then "ok" else "err")
  | _ -> "UNKNOWN-CASE"

let () = register "WL" handle
