(* Encryption family: ENC case lines evaluated on Conc/Keyring.v (open_db, mode_after, created_dir_modes).
   ENC <ctor> <keyring> <filestate> <parent> def=<octal>
     ctor      keyring | withkey:k1 | withkey:k2 | unenc
     keyring   none | k1 | k2            (the entry present before the call)
     filestate missing | empty | plain | enc:k1 | enc:k2
     parent    dir | nodir | nodir2      (missing path components above the database file)
   Result: <ok|err:Kind> gen=<keys written to the keyring> file=<state after> kr=<entry after> mode=<octal|-> dirs=<octal,..|-> *)
open BinNums
open Drv_common
module L = Stdlib.List
module K = Keyring

let fresh_key = n_of_int 99
let key_of_tok = function "k1" -> n_of_int 1 | "k2" -> n_of_int 2 | s -> failwith ("key " ^ s)
let key_name k = match int_of_n k with 1 -> "k1" | 2 -> "k2" | 99 -> "gen" | n -> "key" ^ string_of_int n
let kr_of_tok = function "none" -> None | s -> Some (key_of_tok s)
let show_kr = function None -> "none" | Some k -> key_name k
let fs_of_tok = function
  | "missing" -> K.Missing | "empty" -> K.Empty | "plain" -> K.Plain
  | "enc:k1" -> K.Encrypted (n_of_int 1) | "enc:k2" -> K.Encrypted (n_of_int 2) | s -> failwith ("filestate " ^ s)
let show_fs = function K.Missing -> "missing" | K.Empty -> "empty" | K.Plain -> "plain" | K.Encrypted k -> "enc:" ^ key_name k
let show_err = function
  | K.EUnencryptedWithEncryption -> "UnencryptedWithEncryption" | K.EKeyringEntryMissing -> "KeyringEntryMissing"
  | K.EWrongKey -> "WrongKey" | K.ENotADatabase -> "NotADatabase"
let octal n = Printf.sprintf "%o" (int_of_n n)
let rec nat_of_int i = if i <= 0 then Datatypes.O else Datatypes.S (nat_of_int (i - 1))

let () = register "ENC" (fun t ->
  match t with
  | ctor :: kr :: fs :: parent :: rest ->
    let kr = kr_of_tok kr and fs = fs_of_tok fs in
    let c = match ctor with
      | "keyring" -> K.Keyring kr | "withkey:k1" -> K.WithKey (n_of_int 1) | "withkey:k2" -> K.WithKey (n_of_int 2)
      | "unenc" -> K.Unencrypted | s -> failwith ("ctor " ^ s) in
    let def = match rest with d :: _ when String.length d > 4 && String.sub d 0 4 = "def=" -> int_of_string ("0o" ^ String.sub d 4 (String.length d - 4)) | _ -> 0o755 in
    let o = K.open_db fresh_key kr c fs in
    let verdict, gen = match o.K.verdict_of with
      | K.VOk (_, g) -> "ok", (if g then 1 else 0)
      | K.VErr e -> "err:" ^ show_err e, 0 in
    let before = if fs = K.Missing then None else Some (n_of_int 0o644) in
    let mode = match K.mode_after before o with None -> "-" | Some m -> octal m in
    let missing_levels = match parent with "nodir" -> 1 | "dir" -> 0
      | p when String.length p > 5 && String.sub p 0 5 = "nodir" -> int_of_string (String.sub p 5 (String.length p - 5)) | _ -> 0 in
    let dirs = if fs = K.Missing then K.created_dir_modes (n_of_int def) (nat_of_int missing_levels) else [] in
    Printf.sprintf "%s gen=%d file=%s kr=%s mode=%s dirs=%s" verdict gen (show_fs o.K.file_after) (show_kr o.K.kr_after) mode
      (if dirs = [] then "-" else String.concat "," (L.map octal dirs))
  | _ -> "UNKNOWN-CASE")
