(* Media family (C17): MCTX / MIME / FNAME / MCOLL / MRT / MLATER / MSAME / MIMG case lines (Codec/MediaCtx.v, Mdk/Media.v). *)
open Drv_common
module L = Stdlib.List

let rec nat_of_int i = if i <= 0 then Datatypes.O else Datatypes.S (nat_of_int (i - 1))
let okfail b = if b then "ok" else "fail"

let () =
  register "MCTX" (fun toks -> match toks with
    | h :: m :: n :: v :: _ ->
      (match MediaCtx.mctx (bytes_of_hex v) (bytes_of_hex h) (bytes_of_hex m) (bytes_of_hex n) with
       | Some (c, a) -> Printf.sprintf "OK ctx=%s aad=%s" (hex_of_bytes c) (hex_of_bytes a)
       | None -> "ERR")
    | _ -> "UNKNOWN-CASE");
  register "MIME" (fun toks -> match toks with
    | m :: _ -> (match MediaCtx.validate_mime (bytes_of_hex m) with Some c -> "OK " ^ hex_of_bytes c | None -> "ERR")
    | _ -> "UNKNOWN-CASE");
  register "FNAME" (fun toks -> match toks with
    | n :: _ -> if MediaCtx.filename_valid (bytes_of_hex n) then "OK " ^ hex_of_bytes (bytes_of_hex n) else "ERR"
    | _ -> "UNKNOWN-CASE");
  register "MCOLL" (fun _ ->
    (* "text/plain\000x","y" against "text/plain","x\000y" under hash 07..07 *)
    let v = bytes_of_hex "6d697030342d7632" and h = L.init 32 (fun _ -> n_of_int 7) in
    let a = MediaCtx.mctx v h (bytes_of_hex "746578742f706c61696e0078") (bytes_of_hex "79")
    and b = MediaCtx.mctx v h (bytes_of_hex "746578742f706c61696e") (bytes_of_hex "780079") in
    match a, b with Some x, Some y -> if x = y then "collide" else "distinct" | _ -> "ERR");
  (* property expectations for the oracle cases: the model proves these always hold *)
  register "MRT" (fun _ -> "ok");
  register "MIMG" (fun _ -> "ok");
  register "MLATER" (fun toks -> match toks with
    | _ :: j :: k :: _ ->
      let j = int_of_string j and k = int_of_string k in
      Printf.sprintf "B=%s A=%s" (okfail (Media.scenario_ok (nat_of_int j) (nat_of_int k))) (okfail (Media.scenario_ok (nat_of_int 0) (nat_of_int k)))
    | _ -> "UNKNOWN-CASE");
  register "MSAME" (fun _ -> match Media.same_file_twice with
    | (true, true) -> "both-ok" | (false, false) -> "both-fail" | _ -> "one-fails")
