(* Main loop: one case per input line, one result per output line; dispatch on the first token. *)
let () =
  try
    while true do
      let line = input_line stdin in
      if line <> "" && line.[0] <> '#' then begin
        let out = match String.split_on_char ' ' line with
          | tag :: rest ->
            (match Hashtbl.find_opt Drv_common.handlers tag with
             | Some f -> (try f rest with Failure m -> "MODEL-FAIL " ^ m | Not_found -> "MODEL-FAIL notfound" | Invalid_argument m -> "MODEL-FAIL " ^ m)
             | None -> "UNKNOWN-CASE")
          | [] -> "UNKNOWN-CASE" in
        print_endline out
      end
    done
  with End_of_file -> ()
