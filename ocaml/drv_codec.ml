(* Codec family: EXTDEC / EXTENC / VARINT case lines (Codec/*.v). *)
open BinNums
open Varint
open Drv_common
module L = Stdlib.List

(* relay oracle table: "in>key>printed" or "in>!" joined by ',' *)
let relay_oracle (s : string) : coq_N list -> (coq_N list * coq_N list) option =
  let tbl = L.map (fun e -> match String.split_on_char '>' e with
      | [i; "!"] -> (bytes_of_hex i, None)
      | [i; k; p] -> (bytes_of_hex i, Some (bytes_of_hex k, bytes_of_hex p))
      | _ -> failwith "oracle") (split_on ',' s) in
  fun b -> (try L.assoc b tbl with Not_found -> None)

let show_ext (e : GroupDataExt.ext) =
  Printf.sprintf "OK v=%d gid=%s name=%s descr=%s admins=%s relays=%s ih=%s ik=%s in=%s iu=%s"
    (int_of_n e.version) (hex_of_bytes e.gid) (hex_of_bytes e.name) (hex_of_bytes e.descr)
    (show_list e.admins) (show_list (L.map fst e.relays))
    (show_opt e.ihash) (show_opt e.ikey) (show_opt e.inonce) (show_opt e.iupload)



let () =
  register "EXTDEC" (fun toks -> match toks with
    | hex :: rest ->
      let m = kv rest in
      let orc = relay_oracle (get m "oracle") in
      (match GroupDataExt.deserialize orc (bytes_of_hex hex) with Some e -> show_ext e | None -> "ERR")
    | _ -> "UNKNOWN-CASE");
  register "EXTENC" (fun rest ->
    let m = kv rest in
    let orc = relay_oracle (get m "oracle") in
    let relays = L.map (fun e -> match String.split_on_char '>' e with
        | k :: p :: _ -> (bytes_of_hex k, bytes_of_hex p) | _ -> failwith "relay") (split_on ',' (get m "relays")) in
    let e = { GroupDataExt.version = n_of_int (int_of_string (get m "v")); gid = bytes_of_hex (get m "gid");
              name = bytes_of_hex (get m "name"); descr = bytes_of_hex (get m "descr");
              admins = hexlist (get m "admins"); relays = relays;
              ihash = opt_hex (get m "ih"); ikey = opt_hex (get m "ik"); inonce = opt_hex (get m "in");
              iupload = opt_hex (get m "iu") } in
    let _wf = GroupDataExt.wf orc e in
    (match GroupDataExt.serialize e with
     | Some b -> Printf.sprintf "OK rt=%b %s" (GroupDataExt.roundtrip_ok orc e) (hex_of_bytes b)
     | None -> "ERR"));
  register "VARINT" (fun toks -> match toks with
    | n :: _ -> (match enc_len (n_of_int (int_of_string n)) with Some b -> "OK " ^ hex_of_bytes b | None -> "ERR")
    | _ -> "UNKNOWN-CASE")
