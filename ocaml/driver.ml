(* Line-oriented driver for the extracted models: one case per input line, one result per output line. *)
open BinNums
open Varint
module L = Stdlib.List

let rec pos_of_int i = if i = 1 then Coq_xH else if i land 1 = 0 then Coq_xO (pos_of_int (i lsr 1)) else Coq_xI (pos_of_int (i lsr 1))
let n_of_int i = if i = 0 then N0 else Npos (pos_of_int i)
let rec int_of_pos = function Coq_xH -> 1 | Coq_xO p -> 2 * int_of_pos p | Coq_xI p -> 2 * int_of_pos p + 1
let int_of_n = function N0 -> 0 | Npos p -> int_of_pos p

let hexval c = match c with
  | '0'..'9' -> Char.code c - 48 | 'a'..'f' -> Char.code c - 87 | 'A'..'F' -> Char.code c - 55
  | _ -> failwith "hex"
let bytes_of_hex (s : string) : coq_N list =
  if s = "-" || s = "" then [] else begin
    let n = String.length s / 2 in
    let rec go i acc = if i < 0 then acc else go (i - 1) (n_of_int (hexval s.[2*i] * 16 + hexval s.[2*i+1]) :: acc) in
    go (n - 1) []
  end
let hex_of_bytes (l : coq_N list) : string =
  if l = [] then "-" else begin
    let b = Buffer.create 64 in
    L.iter (fun x -> Buffer.add_string b (Printf.sprintf "%02x" (int_of_n x))) l;
    Buffer.contents b
  end
let split_on c s = if s = "" || s = "-" then [] else String.split_on_char c s
let hexlist s = L.map bytes_of_hex (split_on ',' s)
let opt_hex s = if s = "-" then None else Some (bytes_of_hex s)
let show_opt = function None -> "-" | Some b -> hex_of_bytes b
let show_list l = if l = [] then "-" else String.concat "," (L.map hex_of_bytes l)

(* key=value tokens *)
let kv toks = L.filter_map (fun t -> match String.index_opt t '=' with
  | Some i -> Some (String.sub t 0 i, String.sub t (i+1) (String.length t - i - 1)) | None -> None) toks
let get m k = try L.assoc k m with Not_found -> "-"

(* relay oracle table: "in>key>printed" or "in>!" joined by ',' *)
let relay_oracle (s : string) : coq_N list -> (coq_N list * coq_N list) option =
  let tbl = L.map (fun e -> match String.split_on_char '>' e with
      | [i; "!"] -> (bytes_of_hex i, None)
      | [i; k; p] -> (bytes_of_hex i, Some (bytes_of_hex k, bytes_of_hex p))
      | _ -> failwith "oracle") (split_on ',' s) in
  fun b -> (try L.assoc b tbl with Not_found -> None)

let show_ext (e : GroupDataExt.ext) =
  Printf.sprintf "OK v=%d gid=%s name=%s descr=%s admins=%s relays=%s ih=%s ik=%s in=%s iu=%s"
    (int_of_n e.version) (hex_of_bytes e.gid) (hex_of_bytes e.name) (hex_of_bytes e.descr)
    (show_list e.admins) (show_list (L.map fst e.relays))
    (show_opt e.ihash) (show_opt e.ikey) (show_opt e.inonce) (show_opt e.iupload)

let handle (line : string) : string =
  match String.split_on_char ' ' line with
  | "EXTDEC" :: hex :: rest ->
    let m = kv rest in
    let orc = relay_oracle (get m "oracle") in
    (match GroupDataExt.deserialize orc (bytes_of_hex hex) with
     | Some e -> show_ext e
     | None -> "ERR")
  | "EXTENC" :: rest ->
    let m = kv rest in
    let orc = relay_oracle (get m "oracle") in
    let relays = L.map (fun e -> match String.split_on_char '>' e with
        | k :: p :: _ -> (bytes_of_hex k, bytes_of_hex p) | _ -> failwith "relay") (split_on ',' (get m "relays")) in
    let e = { GroupDataExt.version = n_of_int (int_of_string (get m "v")); gid = bytes_of_hex (get m "gid");
              name = bytes_of_hex (get m "name"); descr = bytes_of_hex (get m "descr");
              admins = hexlist (get m "admins"); relays = relays;
              ihash = opt_hex (get m "ih"); ikey = opt_hex (get m "ik"); inonce = opt_hex (get m "in");
              iupload = opt_hex (get m "iu") } in
    let _wf = GroupDataExt.wf orc e in
    (match GroupDataExt.serialize e with
     | Some b -> Printf.sprintf "OK rt=%b %s" (GroupDataExt.roundtrip_ok orc e) (hex_of_bytes b)
     | None -> "ERR")
  | "VARINT" :: n :: _ ->
    (match enc_len (n_of_int (int_of_string n)) with Some b -> "OK " ^ hex_of_bytes b | None -> "ERR")
  | _ -> "UNKNOWN-CASE"

let () =
  try
    while true do
      let line = input_line stdin in
      if line <> "" && line.[0] <> '#' then
        print_endline (try handle line with Failure m -> "MODEL-FAIL " ^ m | Not_found -> "MODEL-FAIL notfound")
    done
  with End_of_file -> ()
