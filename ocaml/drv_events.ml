(* Event family (C15 part b): B64D / B64E / HEXD / KPEV / WELC case lines (Codec/EventCodec.v). *)
open Drv_common
module L = Stdlib.List

(* tags=<t;t;..>, t = hex elements joined by ',' ("-" = empty element) *)
let parse_tags s = if s = "-" then [] else
  L.map (fun t -> L.map bytes_of_hex (String.split_on_char ',' t)) (String.split_on_char ';' s)
let facts_of toks = (* tokens after the "|" separator are key=value as well *) kv toks

let () =
  register "B64D" (fun toks -> match toks with
    | s :: _ -> (match EventCodec.b64_decode (bytes_of_hex s) with Some b -> "OK " ^ hex_of_bytes b | None -> "ERR")
    | _ -> "UNKNOWN-CASE");
  register "B64E" (fun toks -> match toks with
    | s :: _ -> "OK " ^ hex_of_bytes (EventCodec.b64_encode (bytes_of_hex s))
    | _ -> "UNKNOWN-CASE");
  register "HEXD" (fun toks -> match toks with
    | s :: _ -> (match EventCodec.hex_decode (bytes_of_hex s) with Some b -> "OK " ^ hex_of_bytes b | None -> "ERR")
    | _ -> "UNKNOWN-CASE");
  register "KPEV" (fun toks ->
    let m = facts_of toks in
    let e = { EventCodec.ev_kind = n_of_int (int_of_string (get m "kind")); ev_tags = parse_tags (get m "tags");
              ev_content = bytes_of_hex (get m "content"); ev_author = bytes_of_hex (get m "author") } in
    let kref = bytes_of_hex (get m "ref") in
    let v = EventCodec.kp_verdict e (get m "tls" = "1") kref (opt_hex (get m "ident")) (hexlist (get m "relays")) in
    if int_of_n v = 0 then "ACCEPT ref=" ^ hex_of_bytes kref else "REFUSE");
  register "WELC" (fun toks ->
    let m = facts_of toks in
    let e = { EventCodec.ev_kind = n_of_int (int_of_string (get m "kind")); ev_tags = parse_tags (get m "tags");
              ev_content = bytes_of_hex (get m "content"); ev_author = [] } in
    let v = EventCodec.welcome_verdict e (get m "tls" = "1") (hexlist (get m "relays")) in
    if int_of_n v = 0 then "ACCEPT" else "REFUSE")
